#!/bin/bash
# tools/confirm_seed.sh <worktree> <seed_dir> <seed_id>
# Confirms a seeded change independently: demo passes on clean tree, fails
# with the patch, and the pinned test suite still passes with the patch.
WT="$1"; SD="$2"; ID="$3"
OUT="$SD/$ID.confirm.txt"
: > "$OUT"
cd "$WT" || exit 2
git checkout -q -- . 
PYTHONPATH="$WT" /venv/bin/python "$SD/$ID.demo.py" > "$SD/$ID.demo_clean.log" 2>&1; echo "demo_clean_exit=$?" >> "$OUT"
git apply "$SD/$ID.patch.diff" || { echo "apply_failed" >> "$OUT"; exit 1; }
PYTHONPATH="$WT" /venv/bin/python "$SD/$ID.demo.py" > "$SD/$ID.demo_patched.log" 2>&1; echo "demo_patched_exit=$?" >> "$OUT"
PYTHONPATH="$WT" /venv/bin/python -m pytest -q -p no:cacheprovider --timeout=900 -n 6 2>&1 | tail -6 > "$SD/$ID.suite.log"
grep -E "passed|failed" "$SD/$ID.suite.log" | tail -1 >> "$OUT"
grep FAILED "$SD/$ID.suite.log" | grep -v large_experiment >> "$OUT"
git checkout -q -- .
find "$WT" -name __pycache__ -type d -prune -exec rm -rf {} + 2>/dev/null
cat "$OUT"
