#!/usr/bin/env python3
"""tools/make_seed_prompts.py <old round> <new round> <old suffixes> <new suffixes>
e.g. 5 6 ij kl : derive /tmp/seed6_prompt_<id>.txt from /tmp/seed5_prompt_<id>.txt
(the agent brief: property text + scratch worktree + the ideas earlier rounds
already used, taken from seeded/*/meta.json 'breaks'; nothing of the checks)."""
import glob
import json
import re
import sys

old, new, osuf, nsuf = sys.argv[1:5]
for i in range(1, 20):
    pid = f'C{i:02d}'
    s = open(f'/tmp/seed{old}_prompt_{pid}.txt').read()
    head, rest = s.split('IMPORTANT - ideas that were ALREADY USED', 1)
    first_line, rest = rest.split('\n', 1)
    bullets, tail = rest.split('Also avoid bugs that make the library crash', 1)
    used = []
    for d in sorted(glob.glob(f'/verif/seeded/{pid}-*')):
        m = json.load(open(d + '/meta.json'))
        used.append('- ' + ' '.join((m.get('breaks') or '').split())[:330])
    s = (head + 'IMPORTANT - ideas that were ALREADY USED' + first_line + '\n'
         + '\n'.join(used) + '\nAlso avoid bugs that make the library crash'
         + tail)
    s = s.replace(f'wt{old}_', f'wt{new}_').replace(f'seed{old}_', f'seed{new}_')
    s = s.replace('{%s, %s}' % tuple(osuf), '{%s, %s}' % tuple(nsuf))
    s = re.sub(r'bug %s\b' % osuf[0], 'bug ' + nsuf[0], s)
    s = re.sub(r'bug %s\b' % osuf[1], 'bug ' + nsuf[1], s)
    open(f'/tmp/seed{new}_prompt_{pid}.txt', 'w').write(s)
    print(pid, len(used), len(s))
