#!/bin/bash
# tools/try_seeds_wt.sh <seed-dir-prefix> <worktree-prefix> <suffixes> <PROP> [other checks...]
# Like try_seeds.sh but applies each patch in the property's scratch worktree
# and points the checks at it (PYTHONPATH), leaving /repo alone.
PFX="$1"; WPFX="$2"; SUF="$3"; P="$4"; shift 4
CHECKS="$P $*"
WT="${WPFX}${P}"
cd "$(dirname "$0")/.." || exit 2
for k in $SUF; do
  git -C "$WT" checkout -q -- . || exit 2
  git -C "$WT" apply "${PFX}${P}/$P-$k.patch.diff" || { echo "== $P-$k: patch does not apply"; continue; }
  for c in $CHECKS; do
    r=$(PYTHONPATH="$WT" ./check $c --tier quick 2>&1 | grep -E "^# " | head -2 | cut -c1-260)
    echo "== $P-$k vs $c: ${r:-MISSED}"
  done
  git -C "$WT" checkout -q -- .
  find "$WT" -name __pycache__ -type d -prune -exec rm -rf {} + 2>/dev/null
done
