#!/bin/bash
# tools/try_seeds.sh <dir-prefix> <suffixes> <PROP> [other checks...]
# e.g. tools/try_seeds.sh /tmp/seed4_ "g h" C05 C10 : applies each seed patch of
# the property to /repo, runs the quick checks named, restores /repo.
PFX="$1"; SUF="$2"; P="$3"; shift 3
CHECKS="$P $*"
cd "$(dirname "$0")/.." || exit 2
for k in $SUF; do
  for c in $CHECKS; do
    r=$(tools/with_patch.sh ${PFX}${P}/$P-$k.patch.diff -- ./check $c --tier quick 2>&1 | grep -E "^(# |patch|error)" | head -2 | cut -c1-260)
    echo "== $P-$k vs $c: ${r:-MISSED}"
  done
done
git -C /repo status --porcelain
