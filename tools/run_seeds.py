#!/usr/bin/env python3
"""tools/run_seeds.py [--fixes] : apply every kept seeded change (and, with
--fixes, the reverse of every fix: commit) to /repo, run the quick check of
its property, restore /repo, and write /verif/seeded/RESULTS.md."""
import glob
import json
import os
import re
import subprocess
import sys

VERIF = '/verif'


def run_check(prop):
    p = subprocess.run(['./check', prop, '--tier', 'quick'], cwd=VERIF,
                       capture_output=True, text=True)
    viol = [l for l in p.stdout.splitlines() if l.startswith('# ')]
    rules = sorted({re.match(r'# (\S+) \[', l).group(1) for l in viol
                    if re.match(r'# (\S+) \[', l)})
    return p.returncode, rules


def with_patch(patch, reverse, fn):
    if subprocess.run(['git', '-C', '/repo', 'status', '--porcelain',
                       '--untracked-files=no'], capture_output=True,
                      text=True).stdout.strip():
        sys.exit('/repo is dirty')
    cmd = ['git', '-C', '/repo', 'apply'] + (['-R'] if reverse else []) + [
        os.path.abspath(patch)]
    if subprocess.run(cmd, capture_output=True).returncode != 0:
        return None
    try:
        return fn()
    finally:
        subprocess.run(['git', '-C', '/repo', 'checkout', '--', '.'])


def main():
    rows = []
    for d in sorted(glob.glob(os.path.join(VERIF, 'seeded', 'C*'))):
        meta = json.load(open(os.path.join(d, 'meta.json')))
        sid = meta['seed_id']
        patch = os.path.join(d, 'patch.adapted.diff')
        if not os.path.exists(patch):
            patch = os.path.join(d, 'patch.diff')
        props = meta['checks_run'].split()
        res = []
        for prop in props:
            r = with_patch(patch, False, lambda: run_check(prop))
            if r is None:
                res.append(f'{prop}: patch does not apply')
            else:
                code, rules = r
                res.append(f'{prop}: ' + ('DETECTED ' + ', '.join(rules[:3])
                                          if code == 1 else
                                          f'missed (exit {code})'))
        rows.append((sid, meta['property'], '; '.join(res)))
        print(rows[-1], flush=True)
    fixes = []
    if '--fixes' in sys.argv:
        known = json.load(open(os.path.join(VERIF, 'known_findings.json')))
        for line in known['fixed']:
            m = re.match(r'fixed: property=(C\d+) (\w+) ', line)
            prop, commit = m.group(1), m.group(2)
            patch = os.path.join(VERIF, 'mutants', 'fixes',
                                 commit + '.patch')
            adapted = patch.replace('.patch', '.adapted.patch')
            if os.path.exists(adapted):
                # later fixes touched the same lines: a forward patch that
                # undoes this fix on the current HEAD
                r = with_patch(adapted, False, lambda: run_check(prop))
            else:
                r = with_patch(patch, True, lambda: run_check(prop))
            if r is None:
                out = 'reverse patch does not apply (later fix touches it)'
            else:
                code, rules = r
                out = ('DETECTED ' + ', '.join(rules[:3])) if code == 1 \
                    else f'missed (exit {code})'
            fixes.append((commit, prop, out))
            print(fixes[-1], flush=True)
    with open(os.path.join(VERIF, 'seeded', 'RESULTS.md'), 'w') as f:
        f.write('# Seeded changes vs. quick checks (tools/run_seeds.py)\n\n'
                '| seed | property | result |\n|---|---|---|\n')
        for r in rows:
            f.write('| %s | %s | %s |\n' % r)
        if fixes:
            f.write('\n# Reverting each fix: commit (mutant zero)\n\n'
                    '| commit | property | result |\n|---|---|---|\n')
            for r in fixes:
                f.write('| %s | %s | %s |\n' % r)


if __name__ == '__main__':
    main()
