#!/usr/bin/env python3
"""tools/run_seeds.py [--fixes] : apply every kept seeded change (and, with
--fixes, the reverse of every fix: commit) to /repo, run the quick check of
its property, restore /repo, and write /verif/seeded/RESULTS.md."""
import glob
import json
import os
import re
import subprocess
import sys

VERIF = '/verif'


def run_check(prop):
    p = subprocess.run(['./check', prop, '--tier', 'quick'], cwd=VERIF,
                       capture_output=True, text=True)
    viol = [l for l in p.stdout.splitlines() if l.startswith('# ')]
    rules = sorted({re.match(r'# (\S+) \[', l).group(1) for l in viol
                    if re.match(r'# (\S+) \[', l)})
    return p.returncode, rules


def with_patch(patch, reverse, fn):
    if subprocess.run(['git', '-C', '/repo', 'status', '--porcelain',
                       '--untracked-files=no'], capture_output=True,
                      text=True).stdout.strip():
        sys.exit('/repo is dirty')
    cmd = ['git', '-C', '/repo', 'apply'] + (['-R'] if reverse else []) + [
        os.path.abspath(patch)]
    if subprocess.run(cmd, capture_output=True).returncode != 0:
        return None
    try:
        return fn()
    finally:
        subprocess.run(['git', '-C', '/repo', 'checkout', '--', '.'])


def only_ids():
    for a in sys.argv[1:]:
        if a.startswith('--only='):
            return set(a[len('--only='):].split(','))
    return None


def patch_results(rows, fixes):
    """--only=<ids>: replace the named rows of the existing RESULTS.md."""
    path = os.path.join(VERIF, 'seeded', 'RESULTS.md')
    new = {r[0]: '| %s | %s | %s |' % r for r in rows + fixes}
    out = []
    for line in open(path).read().splitlines():
        m = re.match(r'\| (\S+) \|', line)
        out.append(new.pop(m.group(1)) if m and m.group(1) in new else line)
    # rows that are not in the file yet: seeds go to the end of the first
    # table, fix reverts to the end of the file
    fix_ids = {r[0] for r in fixes}
    head = next((i for i, l in enumerate(out)
                 if l.startswith('# Reverting each fix')), len(out))
    seed_rows = [new[k] for k in sorted(new) if k not in fix_ids]
    while head > 0 and not out[head - 1].strip():
        head -= 1
    out[head:head] = seed_rows
    out += [new[k] for k in sorted(new) if k in fix_ids]
    open(path, 'w').write('\n'.join(out) + '\n')


def main():
    rows = []
    only = only_ids()
    for d in sorted(glob.glob(os.path.join(VERIF, 'seeded', 'C*'))):
        meta = json.load(open(os.path.join(d, 'meta.json')))
        sid = meta['seed_id']
        if only is not None and sid not in only:
            continue
        patch = os.path.join(d, 'patch.adapted.diff')
        if not os.path.exists(patch):
            patch = os.path.join(d, 'patch.diff')
        props = meta['checks_run'].split()
        res = []
        if meta.get('neutralised_by'):
            # a later fix: commit made this change harmless (its own demo
            # passes with the patch applied): nothing to detect any more
            rows.append((sid, meta['property'],
                         'no longer breaks the property since fix '
                         + meta['neutralised_by']['fix']))
            print(rows[-1], flush=True)
            continue
        for prop in props:
            r = with_patch(patch, False, lambda: run_check(prop))
            if r is None:
                res.append(f'{prop}: patch does not apply')
            else:
                code, rules = r
                res.append(f'{prop}: ' + ('DETECTED ' + ', '.join(rules[:3])
                                          if code == 1 else
                                          f'missed (exit {code})'))
        rows.append((sid, meta['property'], '; '.join(res)))
        print(rows[-1], flush=True)
    fixes = []
    if '--fixes' in sys.argv:
        known = json.load(open(os.path.join(VERIF, 'known_findings.json')))
        for line in known['fixed']:
            m = re.match(r'fixed: property=(C\d+) (\w+) ', line)
            prop, commit = m.group(1), m.group(2)
            if only is not None and commit not in only:
                continue
            patch = os.path.join(VERIF, 'mutants', 'fixes',
                                 commit + '.patch')
            adapted = patch.replace('.patch', '.adapted.patch')
            if os.path.exists(adapted):
                # later fixes touched the same lines: a forward patch that
                # undoes this fix on the current HEAD
                r = with_patch(adapted, False, lambda: run_check(prop))
            else:
                r = with_patch(patch, True, lambda: run_check(prop))
            if r is None:
                out = 'reverse patch does not apply (later fix touches it)'
            else:
                code, rules = r
                out = ('DETECTED ' + ', '.join(rules[:3])) if code == 1 \
                    else f'missed (exit {code})'
            fixes.append((commit, prop, out))
            print(fixes[-1], flush=True)
    if only is not None:
        patch_results(rows, fixes)
        return
    with open(os.path.join(VERIF, 'seeded', 'RESULTS.md'), 'w') as f:
        f.write('# Seeded changes vs. quick checks (tools/run_seeds.py)\n\n'
                '| seed | property | result |\n|---|---|---|\n')
        for r in rows:
            f.write('| %s | %s | %s |\n' % r)
        if fixes:
            f.write('\n# Reverting each fix: commit (mutant zero)\n\n'
                    '| commit | property | result |\n|---|---|---|\n')
            for r in fixes:
                f.write('| %s | %s | %s |\n' % r)


if __name__ == '__main__':
    main()
