#!/bin/bash
# tools/run_all.sh [tier] : every check once; prints one line per check
TIER="${1:-quick}"
cd "$(dirname "$0")/.." || exit 2
for p in $(python3 -c "import json; print(' '.join(c['property_id'] for c in json.load(open('MANIFEST.json'))['checks']))"); do
  s=$(date +%s)
  out=$(./check $p --tier $TIER 2>&1); code=$?
  e=$(( $(date +%s) - s ))
  echo "$p exit=$code ${e}s $(echo "$out" | grep -c '^VIOLATION') violations $(echo "$out" | grep -c '^KNOWN-FINDING') known"
done
