#!/usr/bin/env python3
"""tools/keep_seed.py <seed_dir> <seed_id> <check> <result> [note]
Copy a confirmed seeded change into /verif/seeded/<seed_id>/ with meta.json.
<check>: which check(s) were run against it, <result>: detected|missed."""
import json, os, shutil, sys
sd, sid, check, result = sys.argv[1:5]
note = sys.argv[5] if len(sys.argv) > 5 else ''
dst = os.path.join('/verif/seeded', sid)
os.makedirs(dst, exist_ok=True)
shutil.copy(os.path.join(sd, sid + '.patch.diff'), os.path.join(dst, 'patch.diff'))
shutil.copy(os.path.join(sd, sid + '.demo.py'), os.path.join(dst, 'demo.py'))
meta = json.load(open(os.path.join(sd, sid + '.meta.json')))
confirm = open(os.path.join(sd, sid + '.confirm.txt')).read().strip().splitlines()
meta = {
    'seed_id': sid,
    'property': meta.get('property'),
    'breaks': meta.get('summary'),
    'needs_to_manifest': meta.get('needs'),
    'files': meta.get('files'),
    'author': 'independent sub-agent given only the property text and a scratch worktree',
    'confirmed_by_me': {
        'how': 'tools/confirm_seed.sh in a scratch worktree: demo on clean tree, demo with patch, pinned test suite with patch',
        'results': confirm,
    },
    'checks_run': check,
    'outcome': result,
    'note': note,
}
json.dump(meta, open(os.path.join(dst, 'meta.json'), 'w'), indent=1)
print('kept', dst, result)
