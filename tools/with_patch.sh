#!/bin/bash
# tools/with_patch.sh [-R] <patch> -- <command...>
# Apply a patch to /repo's working tree, run the command, restore /repo.
REV=""
if [ "$1" = "-R" ]; then REV="-R"; shift; fi
PATCH="$(realpath "$1")"; shift; [ "$1" = "--" ] && shift
if [ -n "$(git -C /repo status --porcelain --untracked-files=no)" ]; then
  echo "with_patch: /repo has local modifications; refusing" >&2; exit 3
fi
git -C /repo apply $REV "$PATCH" || { echo "with_patch: patch does not apply" >&2; exit 3; }
trap 'git -C /repo checkout -- . ' EXIT
"$@"
