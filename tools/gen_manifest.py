#!/usr/bin/env python3
"""Regenerate /verif/MANIFEST.json from the property modules present.

A property without a module under vmc/props is listed under
not_applicable with the reason 'not built yet' (kept current on every run).
"""
import json
import os
import sys

VERIF = os.path.dirname(os.path.dirname(os.path.abspath(__file__)))

TEXT = {
    'C01': ('model_checking', '3/C01',
            'Bounded exhaustive exploration of the real Engine: every S-family composite/script up to the bound is compared with the ideal-timeline reference model (exact application times, exactly-once, FIFO, row content on unique tokens), and every execution with <= k non-default poll answers (explorer D) is checked against trace invariants. Also worlds starting at clock 1.5*2**30 and gated worlds whose condition variable is declared in the class defaults. V-family: updates returned in every form (explicit {_value,_updater} with falsy values, arrays passed through, shared default arrays) against a ledger of what was returned.',
            'Trusts the probe seams (Process subclass, user updater, user Emitter) and exact dyadic float arithmetic; bounds: N<=2/3 processes, <=3/4 driver calls, <=2/3 answer deviations.',
            'bounded exhaustive execution enumeration (cross product + deviation-bounded stateless search over poll answers) with reference-timeline conformance'),
    'C02': ('model_checking', '3/C02',
            'Same executions as C01 plus non-dividing timesteps; decides that the timestep argument equals the interval length, intervals are contiguous, timesteps sum to elapsed time and nothing is pending after update(). Also enormous / infinite timesteps under forced calls and regenerated processes whose timesteps must tile their life.',
            'As C01; Engine.front only as a soft cross-check.',
            'bounded exhaustive execution enumeration with interval-contiguity monitors and ideal-timeline conformance'),
    'C03': ('model_checking', '3/C03',
            'Online clock monitor on every global_time write over S-family (incl. all-quiet, steps-only, self-deleting), unrestricted adaptive answers up to the deviation bound and precision grids; lasso detection decides non-termination. Also a top-level variable named time under precision grids; K1 is matched only for re-polls in the very next scheduler pass.',
            'Clock writes observed through a subclass property; termination decided by lasso + caps under fixed answer policies.',
            'deviation-bounded stateless exploration of poll answers + exhaustive schedule grids with an online clock/lasso monitor'),
    'C04': ('model_checking', '3/C04',
            'Every permutation of the listing order of processes, steps, ports and initial-state keys of commuting composites is executed on the real Engine; invariants (no apply between same-instant invocations, identical whole-hierarchy snapshots at one instant, nothing due unapplied, step phase complete) are checked on every execution and the emitted trajectory is compared across all permutations of a world (differential). Also worlds in which a process is quiet at its first polls and starts later (due times from the trace), and worlds in which a compartment whose process reads its environment through ".." is moved by a step.',
            'Commutativity premise: token variables compared as multisets; worlds with structural operations aimed at a process due in the same batch are excluded.',
            'exhaustive permutation enumeration of real executions with snapshot invariants and a cross-permutation differential oracle'),
    'C05': ('model_checking', '3/C05',
            'Every labelled DAG on <=4 (thorough 5) flow steps, with 0-2 legacy derivers, four nestings and two process sets, plus steps deleted/generated mid-phase, is run on the real Engine; a trace monitor decides phase placement, once-per-phase, dependency order with data-flow evidence, derivers-first and equal snapshots per generation. Steps and derivers generated at run time without flow must run first, one at a time, in declaration order.',
            'Flows are well-formed DAGs; derivers are declared homogeneously so declaration order is unambiguous.',
            'exhaustive program enumeration (all DAGs up to n) executed on the implementation with a trace monitor'),
    'C12': ('model_checking', '3/C12',
            'Every emit-flag subset x store_schema override x emit_step x schedule (and a structural add/delete history) is executed with a recording user Emitter; each emit() call is compared with an independently filtered snapshot, row times with the ideal-timeline batch times, larger emit_step runs with the emit_step-1 run of the same world. Also nested emit branches with branch-level flags and a units variable with a co-declared custom serializer.',
            'Snapshot = Engine.state.get_value() read inside emit(); flagged set computed from the world spec; liveness clause for emit_step > 1 as stated in DESIGN.',
            'bounded exhaustive execution enumeration with per-emit snapshot oracle, ideal-timeline conformance and emit_step differential'),
    'C14': ('exploration', '3/C14',
            'Bounded-exhaustive input enumeration: every value tree up to the stated depth/width over a boundary-value alphabet (incl. nan/inf/huge/tiny magnitudes x compound units) is pushed through serialize_value/deserialize_value and RAMEmitter and compared with an independent normal form; every reject must raise TypeError. Rejects include callables that are neither functions nor processes. Also: zero-dimensional arrays, tuple subclasses rejected, one fallback hook / emitter reused across in-place changes, deserialisation leaving its input alone.',
            'Values outside the alphabet (arbitrary floats, serializer-shaped strings) are not covered; set order insignificant.',
            'bounded exhaustive input enumeration against a reference normal form'),
    'C17': ('exploration', '3/C17',
            'Exhaustive: all trees of depth <= 3 over two keys x all start nodes x all paths of length <= 3/4 over {a, b, ..} x all node pairs; path laws are checked by node identity on real Store objects and against ten-line reference functions for the dictionary helpers. Also the store API ([]), trees with shared sub-dict objects, falsy writes, and the laws after a subtree was moved. Also: ports wired to paths that establish a new key and climb out of it again, paths_to_dict on every permutation of the leaf list, assoc_in with dictionary values.',
            'Walks above the root and walks through a leaf are outside the laws.',
            'exhaustive small-scope enumeration of trees and paths against reference path functions'),
    'C18': ('exploration', '3/C18',
            'All 24 variable trees x 1-3 times x cell assignments over falsy/truthy/quantity values (all, or all with <= 2 deviating cells) x all query sets are emitted through RAMEmitter and read back through every accessor; columns, cells and query results are compared with the rows that were emitted. Also raw data with permuted time-key insertion order, units with exponents, lists mixing numbers and quantities. Also: rows whose list / dictionary values are changed in place after the emit, empty branches, queried path timeseries.',
            'Every variable exists at every time; quantity columns keyed (name, unit string).',
            'bounded exhaustive input enumeration with a round-trip oracle'),
    'C08': ('exploration', '3/C08',
            'Every registered updater (and a user function, and per-update _updater overrides) over small value/update domains, node depths, sibling counts and batches of 1-3 updates is applied through Store.apply_update and through Engine.update with scripted probes, and compared with reference updaters; also checks the frame (other variables untouched), that the update handed in is not modified, and declared units. Engine route also through leaf ports (bare, possibly falsy, update values) and list-valued updates through two ports. Also: the _reduce update form (with a named updater), nested None under merge, set variables whose batch ends with a named updater.',
            'Non-commuting batches may be applied in any order; unit magnitudes to 1e-12; dict-valued leaf updates through two ports of one process excluded.',
            'bounded exhaustive input enumeration against reference updaters, two routes (store / engine)'),
    'C11': ('exploration', '3/C11',
            'Every divider x mother value x EVERY random outcome (both coin sides, every binomial k, by replacing the random sources) x overrides x copied/explicit processes x depth x 1-3 generations is divided in a real Engine (division issued by a step); daughters are compared with reference dividers (conservation, partition), and one daughter is then updated to diff the other one and the outside. Also dictionary dividers with equal relative topologies in different branches, dictionary-form branch dividers, the zero divider over typed values, no shared mutable parameters between copied processes.',
            'random.choice / numpy.random.binomial replaced by enumerating choosers; K4 (set divider shares mutable objects) is a known finding.',
            'bounded exhaustive input enumeration incl. all random outcomes, before/after differential for independence'),
    'C19': ('exploration', '3/C19',
            'All event lists up to length 3/4 in every order with duplicate times, plus all time sequences of length 4/5, x 4 timeline timesteps are run in a real Engine with the real TimelineProcess (also via add_timeline) and compared with the first-tick-reached reference trajectory. Also timesteps 0.1 / 0.3 judged on the simulation"s own clock variable, and a TimelineProcess object simulated twice, scripted update()/run_for() call sequences that cut a tick, empty events, list- and dictionary-valued events.',
            'Timesteps divide the run length; several events on one variable in one tick apply in (time, listing) order.',
            'exhaustive enumeration of event lists against a reference trajectory'),
    'C06': ('exploration', '3/C06',
            'A grammar of ports schemas x well-formed topologies x placements is enumerated completely (one port: full grammar; two ports: full grammar pairs; three ports: reduced); for each shape the real Engine is run once to read and once per declared variable (and once for all) to write; reads and the full before/after diff of the hierarchy are compared with an independent resolver written from the documentation. Glob ports wired with dictionaries (renamed child variables, a glob dictionary with its own _path); the alias family returns one dictionary object for two ports / the same update object on every call and checks that exactly the wired nodes change, once.',
            'Topologies that omit ports or list only some variables in a _path-less dictionary are outside the well-formed alphabet; nodes that would be both variable and store are skipped.',
            'bounded exhaustive program enumeration (schema x topology grammar) against a reference resolver with a full-state diff'),
    'C15': ('exploration', '3/C15',
            'For 1-3 processes with ports from the topology grammar that share variables, EVERY subset of resolved nodes is given an explicit initial value and the store is built through Engine(...) and generate_state(...); every node must hold explicit-else-default at the node named by the reference resolver; named glob children must exist with declared defaults; conflicting _value/_units/_serializer declarations must raise ValueError; Composite.initial_state()/default_state() are compared with per-process values mapped through the resolver. Also glob co-declarers, rebuilds after a declaration changed, one schema object shared by two processes, dictionary- and array-valued conflicts, undeclared keys in the initial state, processes that return a dictionary they keep from initial_state() (call sequences on one Composite).',
            'Sharers declare equal defaults; differing defaults are merged silently by design.',
            'bounded exhaustive enumeration of composites x initial-state subsets against a reference resolver'),
    'C07': ('model_checking', '3/C07',
            'Explorer B (BFS over structural histories with canonical-state merging, each history replayed on a fresh real Engine) plus the C06 grammar with undeclared extras: at EVERY calculate_timestep/update_condition/next_update call of the observer its states argument is compared with an independent projection of the whole-hierarchy snapshot taken in the same callback. Also controllers inside dividing / dying / migrating compartments that watch both containers (agents family), and watchers with an empty glob ("*": {}) while children are added / generated / deleted. Also: observers that wait across non-forcing calls, "**" ports over an emptied glob store, glob ports on the observer"s own compartment.',
            'Snapshot read inside the observer callback; canonical form drops values; observer process (ts 1, 2) or dependent step.',
            'explicit-state BFS over operation histories on the real engine with a per-callback projection invariant'),
    'C09': ('model_checking', '3/C09',
            'Explorer B: BFS over histories of _add/_delete/_generate/_divide/_move/clear and pairs, by a step or a process, from three initial hierarchies; every history is executed on a fresh real Engine and after every tick the value tree is compared with the reference hierarchy and node identities outside the footprint (and of moved subtrees) are compared. Agents family: the same operations issued from inside the compartments (self-division with copied or fresh processes, self-deletion, self-move, operations on siblings). Also: updates that address the child they create, two ports of one process sending structural lists to one store, _add states that name children of a nested glob store.',
            'Canonical-state merging keeps shape/keys/kind; compartment processes inert or idle; K6 (tuple-path _delete) is a known finding.',
            'explicit-state BFS over operation histories with a reference hierarchy model and an identity frame condition'),
    'C10': ('model_checking', '3/C10',
            'Explorer B x victim status (idle / due / in flight via timesteps 1 and 3) x issuer x listing order: the multiset of (path, time) process invocations and the step runs of every phase are compared with the schedule derived from the reference hierarchy; the published composite is compared with the store and with the Composite the engine was built from; a rebuilt engine must continue with the same rows. Agents family: the operations are issued by a controller (process or step) inside the compartments - self-division with copied or fresh processes, self-deletion, self-move, operations on siblings - with growth timesteps 1 and 2. Also: a process replaced in place by a _generate onto its key starts afresh.',
            'Steps are idempotent derivations; K2 (_move of a busy process) is a known finding.',
            'explicit-state BFS over operation histories with a reference schedule, a published-composite invariant and a rebuilt-engine differential'),
    'C16': ('exploration', '3/C16',
            'Four template composers x embedding paths x ALL merge sequences up to length 3/4 x three engine entry points x schema overrides; union model for merges, deep-equality snapshots of merged-in and unrelated composites (then and later), trajectory equality across entry points and re-rooted embeddings. Also Process.generate, MetaComposer, overrides that survive later merges, overrides with several entries, override isolation between processes of one Composer, Composer reuse, Step objects listed under processes, merged state against a process"s own initial state.',
            'Entry points compared on an explicit initial state; K5 (no explicit state) is a known finding.',
            'bounded exhaustive enumeration of merge sequences and entry points with a union model and differential trajectories'),
    'C13': ('fault_enumeration', '3/C13',
            'Real worker OS processes. Every parallel subset of schedule, step/deriver and structural worlds is run next to its all-serial twin (rows, final state, published composite must be equal), and every stop point is enumerated: end() after each driver call, end() twice, engine dropped without end(), an exception injected into the j-th call of a serial or a parallel process followed by end(), and deletion/division/move/generation at ticks that leave the worker idle, due in the same batch or in flight (small and pipe-buffer-exceeding updates, operator listed before or after the victim). No still-pending error (also from __del__), end() returns, every worker pid is gone within the watchdog. Also schema overrides of parallel processes, generated parallel steps that are moved later, and every pair of empty-shaped update values through the pipe. Also: profiles larger than a pipe buffer (profile=True), state-dependent timesteps in a worker, and the wrapper answering the Process interface after merge_overrides.',
            'Worker liveness by pid; ParallelProcess.__init__ wrapped in the harness to record pids; K2 is a known finding.',
            'exhaustive fault/stop-point enumeration over real worker processes with a serial-vs-parallel differential oracle'),
}

LEVEL_TEXT = {}


def main():
    props = [json.loads(l) for l in open(os.path.join(VERIF, 'properties.jsonl'))]
    checks, na = [], []
    for p in props:
        pid = p['id']
        mod = os.path.join(VERIF, 'vmc', 'props', pid + '.py')
        if os.path.exists(mod) and pid in TEXT:
            cat, ref, text, note, tech = TEXT[pid]
            checks.append({
                'property_id': pid,
                'quick_cmd': f'./check {pid} --tier quick',
                'thorough_cmd': f'./check {pid} --tier thorough',
                'evidence_file': f'/verif/evidence/{pid}.json',
                'replay_cmd_template': f'./check {pid} --replay {{path}}',
                'engine': 'vmc',
                'level_claimed': {'category': cat, 'text': text,
                                  'design_ref': 'DESIGN.md section ' + ref},
                'level_note': note,
                'technique': tech,
            })
        else:
            na.append({'property_id': pid,
                       'reason': 'check not built yet in this round (planned: see DESIGN.md section 3/' + pid + '); not claimed'})
    man = {
        'version': 1,
        'setup_cmd': '/venv/bin/python -c "import vivarium, networkx, jsonschema" && chmod +x /verif/check',
        'hooks': {
            'guard': 'VIVARIUM_CORE_VERIF',
            'enable': 'no source hooks: all observation goes through public extension seams (Process/Step/Emitter/Engine subclasses and the registries); checks import vivarium from /repo working tree via the editable install',
            'baseline_off_cmd': 'cd /repo && /venv/bin/python -m pytest -ra -q -p no:cacheprovider --timeout=900 --continue-on-collection-errors',
            'source_commits': [],
            'add_only': True,
        },
        'engines': [{
            'name': 'vmc', 'path': '/verif/vmc',
            'serves_properties': [c['property_id'] for c in checks],
            'kind_free_text': 'hand-written explicit-state / stateless bounded-exhaustive explorers (cross product X, deviation-bounded D, BFS B) that execute the real vivarium Engine/Store and judge every execution with trace monitors and Python reference models',
        }],
        'checks': checks,
        'notes': 'Genuine defects repaired as fix: commits in /repo are listed in known_findings.json (fixed: lines); recorded findings are printed as KNOWN-FINDING lines. See DESIGN.md.',
        'not_applicable': na,
    }
    with open(os.path.join(VERIF, 'MANIFEST.json'), 'w') as f:
        json.dump(man, f, indent=1)
    try:
        import jsonschema
        schema = json.load(open(os.path.join(VERIF, 'schemas', 'MANIFEST.schema.json')))
        jsonschema.validate(man, schema)
        print('MANIFEST.json valid;', len(checks), 'checks,', len(na), 'not yet claimed')
    except ImportError:
        print('MANIFEST.json written (jsonschema unavailable)')


if __name__ == '__main__':
    sys.exit(main())
