#!/usr/bin/env python3
"""tools/seed_table.py <suffixes>  e.g. ef : markdown rows for DESIGN.md 8.3
from seeded/*/meta.json (first = whether the property's check caught the
change before anything was added)."""
import glob
import json
import sys

suffixes = sys.argv[1] if len(sys.argv) > 1 else 'ef'
print('| seed | first | what was added (or which rule caught it) |')
print('|---|---|---|')
for d in sorted(glob.glob('/verif/seeded/C*')):
    m = json.load(open(d + '/meta.json'))
    if m['seed_id'][-1] not in suffixes:
        continue
    note = m.get('note', '')
    first = 'missed' if 'first missed' in note else 'detected'
    text = note.split(';', 2)[-1].strip() if ';' in note else note
    print(f"| {m['seed_id']} | {first} | {text} |")
