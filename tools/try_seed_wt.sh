#!/bin/bash
# tools/try_seed_wt.sh <worktree> <seed_dir> <seed_id> <check ids...>
# Like confirm_seed.sh, but also runs the named quick checks against the
# patched WORKTREE (PYTHONPATH wins over the editable install), so that
# /repo need not be touched while something else is using it.
WT="$1"; SD="$2"; ID="$3"; shift 3
OUT="$SD/$ID.confirm.txt"
: > "$OUT"
cd "$WT" || exit 2
git checkout -q -- .
PYTHONPATH="$WT" /venv/bin/python "$SD/$ID.demo.py" > "$SD/$ID.demo_clean.log" 2>&1; echo "demo_clean_exit=$?" >> "$OUT"
git apply "$SD/$ID.patch.diff" || { echo "apply_failed" >> "$OUT"; exit 1; }
PYTHONPATH="$WT" /venv/bin/python "$SD/$ID.demo.py" > "$SD/$ID.demo_patched.log" 2>&1; echo "demo_patched_exit=$?" >> "$OUT"
for c in "$@"; do
  r=$(cd /verif && PYTHONPATH="$WT" ./check $c --tier quick 2>&1 | grep -E "^(# |VIOLATION)" | head -4)
  echo "check $c: ${r:-silent}" >> "$OUT"
done
PYTHONPATH="$WT" /venv/bin/python -m pytest -q -p no:cacheprovider --timeout=900 -n 6 2>&1 | tail -6 > "$SD/$ID.suite.log"
grep -E "passed|failed" "$SD/$ID.suite.log" | tail -1 >> "$OUT"
grep FAILED "$SD/$ID.suite.log" | grep -v large_experiment >> "$OUT"
git checkout -q -- .
find "$WT" -name __pycache__ -type d -prune -exec rm -rf {} + 2>/dev/null
cat "$OUT"
