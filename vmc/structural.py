"""Structural worlds: containers X, Y of small compartments, an operator
that issues one structural operation per tick, a boring reference model of
the hierarchy, and explorer B (BFS over operation histories with
canonical-state deduplication).  Shared by C07, C09 and C10.
"""
import copy
import itertools

from vmc import framework as fw
from vmc import probes, worlds

CONTAINERS = ('X', 'Y')
KEYS = ('a', 'b')

VAR = {'_default': 0, '_emit': True}
SETVAR = {'_default': 1, '_updater': 'set', '_emit': True}
TOKVAR = {'_default': (), '_updater': 'vmc_collect_quiet', '_emit': True}


def child_schema():
    # n: a 'set' variable that may be cleared to None; g: declared ONLY by
    # the container's glob sub-schema (not by the inner processes)
    return {'v': dict(VAR), 'w': dict(SETVAR),
            'n': {'_default': 'home', '_updater': 'set', '_emit': True},
            'g': {'_default': 0, '_emit': True}}


LEAF_CONTAINER = 'Z'          # children are leaves with default 10
LEAF_VALUES = (0, False, '', 0.0, 5)


# ----------------------------------------------------------------------
# compartments

def inner_spec(kind, ts=1):
    """Processes / steps / flow / topology living inside one compartment.

    kind: 'vars'  - variables only
          'inert' - one probe process that returns empty updates
          'proc'  - one probe process (accumulates v, collects tokens)
          'full'  - process + flow steps s1 <- s2 + legacy deriver d0
          'nested' - the same with the flow steps in a sub-compartment
          'dproc' - process + a legacy deriver listed under PROCESSES (a
                    Process whose is_step() is true), no other step
    """
    if kind == 'vars':
        return {}, {}, {}, {}
    proc = {'cls': 'P', 'pid': 'proc', 'ts': ts,
            'schema': {'in': {'v': dict(VAR), 'w': dict(SETVAR),
                              'tok': dict(TOKVAR)}},
            'update': {} if kind == 'inert' else
            {'in': {'v': 1, 'tok': '$tok'}}}
    processes = {'proc': proc}
    topology = {'proc': {'in': ()}}
    steps, flow = {}, {}
    if kind == 'dproc':
        processes['d0'] = {
            'cls': 'D', 'pid': 'd0',
            'schema': {'in': {'v': dict(VAR),
                              'o_d0': {'_default': -1, '_updater': 'set',
                                       '_emit': True}}},
            'update': {'in': {'o_d0': {'$state': ('in', 'v')}}}}
        topology['d0'] = {'in': ()}
    if kind in ('full', 'nested'):
        # s2 depends on s1 but is LISTED FIRST (dict order differs from the
        # dependency order) and reads what s1 wrote in this phase
        defs = {}
        for sid in ('s2', 's1'):
            src = ('in', 'v') if sid == 's1' else ('in', 'o_s1')
            defs[sid] = {
                'cls': 'S', 'pid': sid,
                'schema': {'in': {'v': dict(VAR),
                                  'o_s2': {'_default': -1,
                                           '_updater': 'set',
                                           '_emit': True},
                                  'o_s1': {'_default': -1,
                                           '_updater': 'set',
                                           '_emit': True}}},
                'update': {'in': {f'o_{sid}': {'$state': src}}}}
        if kind == 'full':
            steps.update(defs)
            for sid in defs:
                topology[sid] = {'in': ()}
            flow = {'s1': [], 's2': [('s1',)]}
        else:
            # the flow steps live in a sub-compartment (nested flow)
            steps['sub'] = defs
            topology['sub'] = {sid: {'in': ('..',)} for sid in defs}
            flow = {'sub': {'s1': [], 's2': [('s1',)]}}
        steps['d0'] = {
            'cls': 'S', 'pid': 'd0',
            'schema': {'in': {'v': dict(VAR),
                              'o_d0': {'_default': -1, '_updater': 'set',
                                       '_emit': True}}},
            'update': {'in': {'o_d0': {'$state': ('in', 'v')}}}}
        topology['d0'] = {'in': ()}
    return processes, steps, flow, topology


def initial_world(kind, ts_of, issuer, op_script, init=None, extra=None,
                  op2_script=None):
    """kind: inner kind of the initial compartments; ts_of: {key: ts};
    issuer: 'process' | 'step'; op_script: {n: update template}."""
    init = init if init is not None else {'X': ['a', 'b'], 'Y': []}
    processes, steps, flow, topology, state = {}, {}, {}, {}, {}
    for c in CONTAINERS:
        for k in init.get(c, []):
            p, s, f, t = inner_spec(kind, ts_of.get(k, 1))
            if p:
                processes.setdefault(c, {})[k] = p
            if s:
                steps.setdefault(c, {})[k] = s
            if f:
                flow.setdefault(c, {})[k] = f
            if t:
                topology.setdefault(c, {})[k] = t
            state.setdefault(c, {})[k] = {'v': 10 * (1 + KEYS.index(k[0])),
                                          'w': 1}
    op_schema = {c: {'*': child_schema()} for c in CONTAINERS}
    op_schema[LEAF_CONTAINER] = {'*': {'_default': 10, '_updater': 'set',
                                       '_emit': True}}
    op = {'cls': 'P' if issuer == 'process' else 'S', 'pid': 'op',
          'ts': 1, 'schema': op_schema, 'log_states': False,
          'update': {'$n': op_script, '$else': {}}}
    if issuer == 'process':
        processes['op'] = op
    else:
        steps['op'] = op
        flow['op'] = []
    op_schema['top'] = {}
    topology['op'] = {c: (c,) for c in CONTAINERS + (LEAF_CONTAINER,)}
    topology['op']['top'] = ()
    if op2_script is not None:
        # a second operator, listed after the first: its updates of one
        # tick are applied after the first operator's
        op2 = copy.deepcopy(op)
        op2['pid'] = 'op2'
        op2['update'] = {'$n': op2_script, '$else': {}}
        if issuer == 'process':
            processes['op2'] = op2
        else:
            steps['op2'] = op2
            flow['op2'] = []
        topology['op2'] = dict(topology['op'])
    spec = {'processes': processes, 'steps': steps, 'flow': flow,
            'topology': topology, 'state': state}
    if extra:
        extra(spec)
    return spec


# ----------------------------------------------------------------------
# operations: update templates and the reference model

def op_update(op, kind='vars', ts=1):
    """The update the operator returns for one operation."""
    name = op[0]
    if name == 'add':
        _, c, k = op
        body = {'_add': [{'key': k, 'state': {'v': 5}}]}
        if k[0] == 'b':
            # a turnover update in which something is born and nothing
            # dies: the empty list is a no-op
            body['_delete'] = []
        if c == 'Y':
            # the same update also addresses the child it creates
            body[k] = {'w': 3}
        return {c: body}
    if name == 'del':
        _, c, k = op
        return {c: {'_delete': [k]}}
    if name == 'clr':
        _, c, k = op
        return {c: {k: {'n': None}}}
    if name == 'delsub':
        # delete the last flow step INSIDE the sub-compartment of one
        # compartment
        _, c, k = op
        return {c: {k: {'sub': {'_delete': ['s2']}}}}
    if name == 'regen':
        # first half (first operator): delete; the second operator
        # generates the same key in the same tick (op2_update)
        _, c, k = op
        return {c: {'_delete': [k]}}
    if name == 'addleaf':
        _, k, i = op
        return {LEAF_CONTAINER: {'_add': [{'key': k,
                                           'state': LEAF_VALUES[i]}]}}
    if name == 'delpath':
        _, c, k = op
        return {c: {'_delete': [(k,)]}}
    if name == 'gen':
        _, c, k = op
        p, s, f, t = inner_spec(kind if kind != 'vars' else 'proc', ts)
        g = {'key': k, 'processes': {'$probes': p}, 'topology': t,
             'initial_state': {'v': 7, 'g': 4}}
        if s:
            g['steps'] = {'$probes': s}
            g['flow'] = f
        if c == 'Y':
            # the same update also addresses the compartment it generates
            return {c: {'_generate': [g], k: {'w': 3}}}
        return {c: {'_generate': [g]}}
    if name == 'div':
        _, c, k = op
        d0 = {'key': k + '0'}
        if k[0] == 'a':
            # an explicit initial state for ONE daughter overrides the
            # divider's share (w: 'set' divider, i.e. the mother's value)
            d0['initial_state'] = {'w': 9}
        return {c: {'_divide': {'mother': k, 'daughters': [
            d0, {'key': k + '1'}]}}}
    if name == 'mov':
        _, c, k, d = op
        return {c: {'_move': [{'source': (k,), 'target': move_target(k, d)}]}}
    if name == 'movupd':
        _, c, k, d = op
        return {c: {'_move': [{'source': (k,), 'target': move_target(k, d),
                               'update': {'v': 100}}]}}
    if name == 'pair':
        _, a, b = op
        ua, ub = op_update(a, kind, ts), op_update(b, kind, ts)
        out = copy.deepcopy(ua)
        for c, body in ub.items():
            if c in out:
                for key, val in body.items():
                    if key in out[c] and isinstance(val, list):
                        out[c][key] = out[c][key] + val
                    else:
                        out[c][key] = val
            else:
                out[c] = body
        return out
    raise ValueError(op)


def move_target(key, dest):
    """Both documented forms of a _move target: a port name, or a tuple
    (port name, *path below it) - here the operator's port 'top', wired to
    the root, extended by the container's name."""
    return ('top', dest) if key[0] == 'b' else dest


def op2_update(op, kind='vars', ts=1):
    """What the SECOND operator returns in the tick of ``op`` (or None)."""
    if op[0] == 'regen':
        return op_update(('gen', op[1], op[2]), kind, ts)
    if op[0] == 'pair':
        for sub in op[1:]:
            u = op2_update(sub, kind, ts)
            if u is not None:
                return u
    return None


class Model:
    """Reference hierarchy: {container: {key: compartment dict}}."""

    def __init__(self, init, kind, proc_issuer=False, gen_kind=None,
                 ts_of=None):
        self.kind = kind
        self.gen_kind = gen_kind
        self.ts_of = ts_of or {}
        self.now = 0
        self.leaves = {}
        # when a *process* issues the operations, compartments that hold a
        # process are not divided (their process has a command pending in
        # the same pass: known finding K7, explored under C10)
        self.proc_issuer = proc_issuer
        self.t = {c: {} for c in CONTAINERS}
        for c in CONTAINERS:
            for k in init.get(c, []):
                self.t[c][k] = {'v': 10 * (1 + KEYS.index(k[0])), 'w': 1,
                                'inner': kind, 'cell': object(),
                                'ts': self.ts_of.get(k, 1), 'born': 0,
                                'n': 'home', 'g': 0}

    def copy(self):
        m = Model({}, self.kind, self.proc_issuer, self.gen_kind,
                  self.ts_of)
        m.now = self.now
        m.leaves = dict(self.leaves)
        m.t = {c: {k: dict(v) for k, v in kids.items()}
               for c, kids in self.t.items()}
        return m

    def enabled(self, op):
        name = op[0]
        if name == 'add' or name == 'gen':
            return op[2] not in self.t[op[1]]
        if name in ('del', 'delpath'):
            return op[2] in self.t[op[1]]
        if name == 'delsub':
            return op[2] in self.t[op[1]] and \
                self.t[op[1]][op[2]]['inner'] == 'nested'
        if name == 'clr':
            return op[2] in self.t[op[1]] and \
                self.t[op[1]][op[2]]['n'] is not None
        if name == 'regen':
            return op[2] in self.t[op[1]] and len(op[2]) == 1
        if name == 'addleaf':
            return op[1] not in self.leaves
        if name == 'div':
            c, k = op[1], op[2]
            return (k in self.t[c] and len(k) == 1
                    and k + '0' not in self.t[c]
                    and k + '1' not in self.t[c]
                    and not (self.proc_issuer
                             and self.t[c][k]['inner'] != 'vars'))
        if name in ('mov', 'movupd'):
            _, c, k, d = op
            return k in self.t[c] and k not in self.t[d]
        if name == 'pair':
            # both enabled now, on different keys, and still enabled after
            # the engine's fixed order (adds, moves, generates, divide,
            # deletes last)
            a, b = op[1], op[2]
            if a[0] in ('mov', 'movupd') and b[0] == 'gen' and \
                    a[1:3] == b[1:3]:
                # move a compartment away and generate its key anew in
                # the same update (moves are carried out first)
                return self.enabled(a)
            if not (self.enabled(a) and self.enabled(b)):
                return False
            if a[0] in ('clr', 'addleaf', 'regen', 'delsub') or b[0] in (
                    'clr', 'addleaf', 'regen', 'delsub'):
                return False
            ka, kb = a[2], b[2]
            if ka[0] == kb[0]:
                return False
            # '_divide' holds ONE division per container and update
            if a[0] == 'div' and b[0] == 'div' and a[1] == b[1]:
                return False
            return True
        return False

    def apply(self, op, gen_kind=None):
        """Apply one operation; a pair is applied in the documented order
        (additions and moves first, deletions last)."""
        name = op[0]
        if name == 'pair':
            order = {'add': 0, 'mov': 1, 'movupd': 1, 'gen': 2, 'div': 3,
                     'del': 5, 'delpath': 5}
            now = self.now
            for sub in sorted(op[1:], key=lambda o: order[o[0]]):
                self.now = now
                self.apply(sub, gen_kind)
            return
        self.now += 1
        if name == 'add':
            self.t[op[1]][op[2]] = {'v': 5, 'w': 3 if op[1] == 'Y' else 1,
                                    'inner': 'vars',
                                    'cell': object(), 'ts': 1,
                                    'born': self.now, 'n': 'home', 'g': 0}
        elif name == 'clr':
            self.t[op[1]][op[2]]['n'] = None
        elif name == 'delsub':
            self.t[op[1]][op[2]]['inner'] = 'nos2'
        elif name == 'regen':
            self.t[op[1]][op[2]] = {
                'v': 7, 'w': 1, 'cell': object(), 'ts': 1,
                'born': self.now, 'n': 'home', 'g': 4,
                'inner': gen_kind or self.gen_kind or (
                    'proc' if self.kind == 'vars' else self.kind)}
        elif name == 'addleaf':
            self.leaves[op[1]] = LEAF_VALUES[op[2]]
        elif name in ('del', 'delpath'):
            del self.t[op[1]][op[2]]
        elif name == 'gen':
            self.t[op[1]][op[2]] = {
                'v': 7, 'w': 3 if op[1] == 'Y' else 1, 'cell': object(),
                'ts': 1,
                'born': self.now, 'n': 'home', 'g': 4,
                'inner': gen_kind or self.gen_kind or (
                    'proc' if self.kind == 'vars' else self.kind)}
        elif name == 'div':
            c, k = op[1], op[2]
            m = self.t[c].pop(k)
            for i in '01':
                d = dict(m)
                d['cell'] = object()
                d['born'] = self.now      # daughters keep the mother's ts
                if i == '0' and k[0] == 'a':
                    d['w'] = 9            # explicit initial state
                self.t[c][k + i] = d
        elif name in ('mov', 'movupd'):
            _, c, k, d = op
            node = self.t[c].pop(k)
            if name == 'movupd':
                node['v'] += 100
            self.t[d][k] = node

    def canon(self):
        return tuple((c, tuple(sorted(
            (k, v['inner'], v['n'] is None) for k, v in kids.items())))
            for c, kids in sorted(self.t.items())) + (
                tuple(sorted(self.leaves)),)

    def footprint(self, op):
        """Paths (container, key) an operation may touch."""
        if op[0] == 'pair':
            return self.footprint(op[1]) | self.footprint(op[2])
        if op[0] in ('mov', 'movupd'):
            return {(op[1], op[2]), (op[3], op[2])}
        if op[0] == 'div':
            return {(op[1], op[2]), (op[1], op[2] + '0'),
                    (op[1], op[2] + '1')}
        if op[0] == 'addleaf':
            return {(LEAF_CONTAINER, op[1])}
        return {(op[1], op[2])}


def menu(model, with_pairs=True, with_delpath=False, keys=KEYS,
         with_extras=False, with_regen=False, with_delsub=False):
    ops = []
    if with_delsub:
        for c in CONTAINERS:
            for k in sorted(model.t[c]):
                ops.append(('delsub', c, k))
    if with_regen:
        for c in CONTAINERS:
            for k in sorted(model.t[c]):
                ops.append(('regen', c, k))
    if with_extras:
        for k in ('p',):
            for i in range(len(LEAF_VALUES)):
                ops.append(('addleaf', k, i))
        for c in CONTAINERS:
            for k in sorted(model.t[c]):
                ops.append(('clr', c, k))
    for c in CONTAINERS:
        d = 'Y' if c == 'X' else 'X'
        for k in keys:
            ops += [('add', c, k), ('gen', c, k)]
        for k in sorted(model.t[c]):
            ops += [('del', c, k), ('div', c, k), ('mov', c, k, d),
                    ('movupd', c, k, d)]
            if with_delpath:
                ops.append(('delpath', c, k))
    ops = [o for o in ops if model.enabled(o)]
    if with_pairs:
        singles = list(ops)
        for a, b in itertools.combinations(singles, 2):
            p = ('pair', a, b)
            if model.enabled(p):
                ops.append(p)
        for a in singles:
            if a[0] == 'mov':
                ops.append(('pair', a, ('gen', a[1], a[2])))
    return ops


# ----------------------------------------------------------------------
# explorer B

def bfs(init, kind, depth, step, with_pairs=True, with_delpath=False,
        pair_depth=1):
    """Breadth-first search over operation histories.

    ``step(history, model_before, op, model_after)`` is called for every
    transition (the caller executes the real engine on the history and
    judges it).  States with equal canonical form are merged: the search
    continues from the first history that reached them.
    Returns (states, transitions, histories).
    """
    root = Model(init, kind)
    seen = {root.canon()}
    frontier = [((), root)]
    n_trans = 0
    histories = [()]
    for level in range(depth):
        nxt = []
        for hist, model in frontier:
            for op in menu(model, with_pairs and level < pair_depth + 99,
                           with_delpath):
                after = model.copy()
                after.apply(op)
                n_trans += 1
                h2 = hist + (op,)
                histories.append(h2)
                step(h2, model, op, after)
                c = after.canon()
                if c not in seen:
                    seen.add(c)
                    nxt.append((h2, after))
        frontier = nxt
    return len(seen), n_trans, histories


def enumerate_histories(init, kind, depth, with_pairs=True,
                        with_delpath=False, dedup=True, proc_issuer=False,
                        gen_kind=None, with_extras=False,
                        pair_levels=None, with_regen=False,
                        with_delsub=False):
    """All (history, model trace) pairs explorer B visits, as plain data so
    that they can be distributed over worker processes."""
    root = Model(init, kind, proc_issuer, gen_kind)
    seen = {root.canon()}
    frontier = [((), root)]
    out = []
    transitions = set()
    for level in range(depth):
        nxt = []
        for hist, model in frontier:
            pairs_here = with_pairs and (pair_levels is None
                                         or level < pair_levels)
            for op in menu(model, pairs_here, with_delpath,
                           with_extras=with_extras, with_regen=with_regen,
                           with_delsub=with_delsub):
                after = model.copy()
                after.apply(op)
                h2 = hist + (op,)
                out.append(h2)
                transitions.add((model.canon(), op, after.canon()))
                c = after.canon()
                if not dedup or c not in seen:
                    seen.add(c)
                    nxt.append((h2, after))
        frontier = nxt
    return out, seen, transitions


def replay_model(init, kind, history, gen_kind=None, ts_of=None):
    """[model after 0 ops, after 1 op, ...]"""
    m = Model(init, kind, gen_kind=gen_kind, ts_of=ts_of)
    out = [m.copy()]
    for op in history:
        m.apply(op)
        out.append(m.copy())
    return out


# ----------------------------------------------------------------------
# observation helpers

def tree_of(engine):
    """Pure value tree and {path: id(node)} of the real hierarchy."""
    values = probes.pure(engine.state.get_value())
    ids = {}
    for path, node in engine.state.depth():
        ids[path] = id(node)
    return values, ids
