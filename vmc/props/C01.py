"""C01 - every process update is applied exactly once, at the end of its
interval.  Explorers X (S-family cross product) and D (poll answers)."""
import itertools

from vmc import framework as fw
from vmc import sched, worlds, afamily

ID = 'C01'
LEVEL = 'model_checking'
RULE = (
    'S-family: every composite of N probes with (timestep, condition) from '
    'T x {always, never}, every driver script D^{<=k}.F, flat and nested '
    'topologies; A-family: every execution with <= bound non-default poll '
    'answers (timestep menu, condition menu) of 1-2 adaptive probes, plus '
    'gated worlds (state-dependent _condition toggled by another process); '
    'a killer process deleting a victim whose update is idle / due / in '
    'flight (operator listed first or last). '
    'A case is distinct by (world spec, choice sequence); non-trivial when '
    'at least one update was returned or a condition was false.')
ASSUMPTIONS = [
    'times are dyadic rationals so that expected times are exact floats',
    'probe callbacks and the vmc_collect updater observe the engine only '
    'through public seams (Process subclass, updater registry, Emitter)',
    'A-family timestep menus exclude answers that end before the current '
    'clock (trigger of known finding K1, explored under C03)',
]
BOUNDS = {
    'quick': {'N': 2, 'script_prefix': 2, 'deviations': 2},
    'thorough': {'N': 3, 'script_prefix': 3, 'deviations': 3},
}
MONITORS = ('c01',)


def s_jobs(ctx):
    conds = ['always', 'never']
    pc = list(itertools.product(sched.T_ALL, conds))
    jobs = []
    if ctx.quick:
        scripts = sched.scripts(2)
        for n in (1, 2):
            for procs in itertools.product(pc, repeat=n):
                for sc in scripts:
                    jobs.append(('S', procs, sc, False))
        # nested topology on a reduced grid
        small = list(itertools.product([0.75, 1, 2], conds))
        for procs in itertools.product(small, repeat=2):
            for sc in sched.scripts(1):
                jobs.append(('S', procs, sc, True))
                # the engine starts at a non-zero (dyadic) time
                jobs.append(('S', procs, sc, False, 10.5))
        jobs += big_clock_jobs(1)
        jobs += emit_step_jobs(ctx)
    else:
        for n in (1, 2):
            for procs in itertools.product(pc, repeat=n):
                for sc in sched.scripts(3):
                    jobs.append(('S', procs, sc, False))
        for procs in itertools.product(pc, repeat=3):
            for sc in sched.scripts(1):
                jobs.append(('S', procs, sc, False))
        small = list(itertools.product([0.75, 1, 2, 3], conds))
        for procs in itertools.product(small, repeat=3):
            for sc in sched.scripts(2):
                jobs.append(('S', procs, sc, True))
        jobs += big_clock_jobs(2)
        jobs += emit_step_jobs(ctx)
    return jobs


BIG_T0 = 1610612736.0     # 1.5 * 2**30: quarters are exact floats there


def emit_step_jobs(ctx):
    """Rows are emitted every emit_step (not every batch): each row is
    still labelled with the clock and holds exactly the updates due by
    then."""
    jobs = []
    pc = [(0.75, 'always'), (1.5, 'always'), (1, 'always'), (2, 'never')]
    for procs in itertools.combinations(pc, 2):
        for sc in sched.scripts(1):
            for emit_step in (2, 2.5, 0.5):
                jobs.append(('S', procs, sc, False, 0, emit_step))
    return jobs


def big_clock_jobs(k):
    """The clock is ~1e9 times larger than the timesteps (an epoch
    timestamp as initial_global_time): relative float tolerances must not
    decide what is due."""
    jobs = []
    pc = list(itertools.product([0.25, 1, 3], ['always', 'never']))
    for procs in itertools.product(pc, repeat=2):
        for sc in sched.scripts(k):
            jobs.append(('S', procs, sc, False, BIG_T0))
    return jobs


def s_job_of(case):
    """The S job a replayed case stands for."""
    eng = case.get('engine', {}) or {}
    job = ('S', case['procs'], case['script'], case.get('nested', False),
           eng.get('initial_global_time', 0))
    if 'emit_step' in eng or 'global_time_precision' in eng:
        job += (eng.get('emit_step', 1),)
    if 'global_time_precision' in eng:
        job += (eng['global_time_precision'],)
    return job


def run_s(job, acc, monitors=MONITORS):
    _, procs, script, nested = job[:4]
    t0 = job[4] if len(job) > 4 else 0
    eng_cfg = {'initial_global_time': t0} if t0 else {}
    if len(job) > 5 and job[5] != 1:
        eng_cfg['emit_step'] = job[5]
    if len(job) > 6:
        eng_cfg['global_time_precision'] = job[6]
    spec = sched.s_world(procs, script, nested=nested,
                         engine=eng_cfg or None)
    ex = worlds.execute(spec, guard_factory=sched.lasso_guard)
    p = sched.Parsed(ex)
    sched.record_states(acc, p)
    viols = []
    if 'c01' in monitors:
        viols += sched.mon_c01_static(spec, ex, p)
    if 'c02' in monitors:
        viols += sched.mon_c02_static(spec, ex, p)
    if 'c03' in monitors:
        viols += sched.mon_c03_clock(spec, ex, p)
    n_tok = sum(len(v) for v in p.invokes.values())
    acc.case(key=('S', procs, script, nested, t0) + tuple(job[5:]),
             outcome=f'S:tokens={min(n_tok, 12)}:rows='
                     f'{min(len(worlds.history_rows(ex)), 12)}',
             nontrivial=n_tok > 0 or any(c == 'never' for _, c in procs))
    acc.validated += 1
    for v in viols:
        acc.violate(v)
    if len(acc.samples) < 2:
        acc.sample({'family': 'S', 'procs': procs, 'script': script,
                    'nested': nested, 't0': t0,
                    'applied': {str(k): [t for t, _ in v]
                                for k, v in list(p.applies.items())[:6]}})


# ----------------------------------------------------------------------
# V-family: the FORM of the returned update (explicit-updater form with
# falsy values, arrays passed through from the state, a default array
# shared by two variables) must not change what is applied, or when

def v_world(ts_slow, ts_fast, script, order):
    import numpy as np
    arr = lambda *x: np.array(x, dtype=float)  # noqa
    shared_default = arr(0, 0)
    slow = {'cls': 'P', 'pid': 'slow', 'ts': ts_slow,
            'log_states': False, 'log_return_copy': True,
            'schema': {'pool': {'level': {'_default': arr(1, 2),
                                          '_emit': True}},
                       'sink': {'total': {'_default': arr(0, 0),
                                          '_emit': True}}},
            # the update IS the array object the process was shown
            'update': {'sink': {'total': {'$stateref': ('pool', 'level')}}}}
    fast = {'cls': 'P', 'pid': 'fast', 'ts': ts_fast,
            'log_states': False, 'log_return_copy': True,
            'schema': {'pool': {'level': {'_default': arr(1, 2),
                                          '_emit': True}},
                       'tally': {'y': {'_default': 10, '_emit': True},
                                 'z': {'_default': 2.5, '_emit': True},
                                 'flag': {'_default': True,
                                          '_updater': 'set',
                                          '_emit': True},
                                 'once': {'_default': 0, '_emit': True}},
                       # a port wired straight to ONE variable: the update
                       # is the bare value, falsy values included
                       'switch': {'_default': True, '_updater': 'set',
                                  '_emit': True},
                       # two variables declared with ONE default object
                       'gauge': {'a': {'_default': shared_default,
                                       '_emit': True},
                                 'b': {'_default': shared_default,
                                       '_emit': True}}},
            'update': {'pool': {'level': {'$lit': arr(1, 1)}},
                       'tally': {'y': {'_value': 0,
                                       '_updater': 'accumulate'},
                                 'z': {'_value': 0.0,
                                       '_updater': 'accumulate'},
                                 'flag': {'_value': False,
                                          '_updater': 'set'},
                                 # ONE update overrides the updater (set);
                                 # the later plain updates accumulate again
                                 'once': {'$n': {1: {'_value': 100,
                                                     '_updater': 'set'}},
                                          '$else': 1}},
                       'switch': {'$n': {0: False, 1: 0, 2: '', 3: []},
                                  '$else': 'on'},
                       'gauge': {'a': {'$lit': arr(5, 5)}}}}
    parts = {'slow': slow, 'fast': fast}
    topo = {'slow': {'pool': ('pool',), 'sink': ('sink',)},
            'fast': {'pool': ('pool',), 'tally': ('tally',),
                     'gauge': ('gauge',), 'switch': ('tally', 'sw')},
            'gated': {'tally': ('tally',)}}
    # a step whose update condition is false in its 2nd and 3rd phase:
    # it contributes nothing then
    gated = {'cls': 'S', 'pid': 'gated', 'log_states': False,
             'cond': {'$n': {1: False, 2: False}, '$else': True},
             'schema': {'tally': {'steps': {'_default': 0, '_emit': True}}},
             'update': {'tally': {'steps': 1}}}
    return {'processes': {k: parts[k] for k in order},
            'steps': {'gated': gated}, 'flow': {'gated': []},
            'topology': dict({k: topo[k] for k in order},
                             gated=topo['gated']),
            'script': list(script), 'family': 'V',
            'v': (ts_slow, ts_fast, tuple(order))}


def v_jobs(ctx):
    jobs = []
    scripts = [[('update', 4)], [('run_for', 1.5, False), ('update', 2.5)],
               [('run_for', 2.5, True), ('update', 2)]]
    for ts_slow, ts_fast in ((2, 1), (3, 1), (1.5, 1), (1, 1), (1, 2)):
        for sc in scripts:
            for order in (('slow', 'fast'), ('fast', 'slow')):
                jobs.append(('V', ts_slow, ts_fast, sc, order))
    return jobs


def run_v(job, acc):
    import numpy as np
    _, ts_slow, ts_fast, script, order = job
    spec = v_world(ts_slow, ts_fast, script, order)
    ex = worlds.execute(spec, guard_factory=sched.lasso_guard)
    acc.case(key=('V', ts_slow, ts_fast, script, order), outcome='V')
    acc.validated += 1
    case = {'family': 'V', 'job': job}
    V = lambda rule, fp, msg: acc.violate(  # noqa
        fw.violation(rule, fp, msg, case))
    if ex.error:
        V('C01.crash', sched.crash_fp(ex), f'unexpected {ex.error[2]!r}')
        return
    # ledger: (due time, returned update as it was when it was returned)
    start, ledger = {}, []
    for ev in ex.trace:
        if ev[0] == 'poll':
            start[ev[1]] = ev[7] if ev[7] is not None else ev[4]
        elif ev[0] == 'invoke':
            cur = (ev[1], start.get(ev[1], ev[4]) + ev[5])
        elif ev[0] == 'return':
            ledger.append((cur[1], ev[5]))
    # the gated step runs only after its update condition was asked for
    # this phase and answered True
    asked = None
    for ev in ex.trace:
        if ev[0] == 'cond' and ev[2] == 'gated':
            asked = ev[6]
        elif ev[0] == 'invoke' and ev[2] == 'gated':
            if asked is not True:
                V('C01.condition', 'step-ran-although-condition-false',
                  f'V-world {job[1:]}: step gated was invoked at t={ev[4]} '
                  f'(invocation {ev[3]}) although its update condition '
                  + ('was not asked' if asked is None else 'was false'))
                return
            asked = None
    init = {('pool', 'level'): np.array([1., 2.]),
            ('tally', 'steps'): 0,
            ('sink', 'total'): np.array([0., 0.]),
            ('tally', 'y'): 10, ('tally', 'z'): 2.5, ('tally', 'once'): 0,
            ('gauge', 'a'): np.array([0., 0.]),
            ('gauge', 'b'): np.array([0., 0.])}
    for (T, data, snap) in worlds.history_rows(ex):
        want = {k: (v.copy() if hasattr(v, 'copy') else v)
                for k, v in init.items()}
        flag, switch = True, True
        for due, upd in ledger:
            if due > T:
                continue
            for port, body in upd.items():
                if port == 'switch':
                    switch = body
                    continue
                for var, u in body.items():
                    if (port, var) == ('tally', 'flag'):
                        flag = u['_value']
                        continue
                    if isinstance(u, dict) and u.get('_updater') == 'set':
                        want[(port, var)] = u['_value']
                        continue
                    if isinstance(u, dict):
                        u = u['_value']
                    want[(port, var)] = want[(port, var)] + u
        for (port, var), w in want.items():
            got = snap.get(port, {}).get(var)
            ok = np.array_equal(np.asarray(got), np.asarray(w)) \
                if got is not None else False
            if not ok:
                V('C01.row', f'returned-update-form:{port}.{var}',
                  f'V-world {job[1:]}: at t={T} {port}.{var} = '
                  f'{np.asarray(got).tolist()}, but its initial value '
                  f'plus the updates returned for intervals ending by '
                  f'then is {np.asarray(w).tolist()}')
                return
        got_sw = snap.get('tally', {}).get('sw')
        if got_sw != switch or type(got_sw) is not type(switch):
            V('C01.row', 'returned-update-form:leaf-port',
              f'V-world {job[1:]}: at t={T} tally.sw = {got_sw!r}, the '
              f'last value returned through the leaf port and due by then '
              f'is {switch!r}')
            return
        if snap.get('tally', {}).get('flag') is not flag:
            V('C01.row', 'returned-update-form:tally.flag',
              f'V-world {job[1:]}: at t={T} tally.flag = '
              f'{snap.get("tally", {}).get("flag")!r}, the last set '
              f'update due by then gives {flag!r}')
            return


def par_jobs(ctx):
    """S-family worlds re-run with every non-empty subset of processes
    marked _parallel (real worker processes), judged by rows only."""
    jobs = []
    tmenu = [0.75, 1, 2] if ctx.quick else [0.5, 0.75, 1, 2, 3]
    pc = list(itertools.product(tmenu, ['always', 'never']))
    scripts = [[('update', 3.25)],
               [('run_for', 1.5, False), ('update', 2)],
               [('run_for', 1, True), ('run_for', 2.5, False),
                ('run_for', 1.5, True)]]
    if not ctx.quick:
        scripts = sched.scripts(1)
    for procs in itertools.product(pc, repeat=2):
        for sc in scripts:
            for subset in ((0,), (1,), (0, 1)):
                jobs.append(('Par', procs, sc, subset))
    for ts, cond in pc:
        for sc in scripts:
            jobs.append(('Par', ((ts, cond),), sc, (0,)))
    return jobs


def run_par(job, acc):
    _, procs, script, subset = job
    spec = sched.s_world(procs, list(script) + [('end',)])
    for i in subset:
        spec['processes'][f'p{i}']['_parallel'] = True
    spec['parallel'] = tuple(subset)
    spec['family'] = 'Par'
    ex = worlds.execute(spec, guard_factory=sched.lasso_guard,
                        watchdog=60.0)
    try:
        viols = sched.mon_c01_rows(spec, ex)
    finally:
        if ex.engine is not None:
            try:
                ex.engine.end()
            except Exception:  # noqa
                pass
    acc.case(key=('Par', procs, script, subset),
             outcome=f'Par:rows={len(worlds.history_rows(ex))}')
    acc.validated += 1
    for v in viols:
        acc.violate(v)


def kill_jobs(ctx):
    """A killer process deletes the compartment of a victim probe while the
    victim's update is idle / due in the same batch / in flight."""
    jobs = []
    for vts in (0.5, 1, 2, 3):
        for kill_at in (0, 1, 2):
            for killer_first in (False, True):
                for sc in ([('update', 4)],
                           [('run_for', 1.5, False), ('update', 3)]):
                    jobs.append(('K', vts, kill_at, killer_first, sc))
    return jobs


def run_kill(job, acc):
    _, vts, kill_at, killer_first, script = job
    victim = sched.probe_spec('v', vts, 'always')
    other = sched.probe_spec('p1', 1, 'always')
    killer = {'cls': 'P', 'pid': 'killer', 'ts': 1, 'log_states': False,
              'schema': {'root': {}},
              'update': {'$n': {kill_at: {'root': {'_delete': ['c']}}},
                         '$else': {}}}
    procs = {'c': {'v': victim}, 'p1': other}
    if killer_first:
        procs = dict([('killer', killer)] + list(procs.items()))
    else:
        procs['killer'] = killer
    spec = {'processes': procs,
            'topology': {'c': {'v': {'priv': ('sv',),
                                     'shared': ('..', 'shared')}},
                         'p1': {'priv': ('s1',), 'shared': ('shared',)},
                         'killer': {'root': ()}},
            'script': list(script), 'family': 'K', 'job': job}
    ex = worlds.execute(spec, guard_factory=sched.lasso_guard)
    p = sched.Parsed(ex)
    sched.record_states(acc, p)
    acc.case(key=job, outcome=f'K:kill_at={kill_at}')
    V = lambda rule, fp, msg: acc.violate(  # noqa
        fw.violation(rule, fp, msg, spec))
    if ex.error:
        V('C01.crash', 'kill:' + sched.crash_fp(ex),
          f'unexpected {ex.error[2]!r}')
        return
    t_del = kill_at + 1            # the deletion is applied at this time
    # the survivor behaves exactly as in the world without the victim
    ref = sched.ideal_timeline([(1, 'always')], script, 0)[0]
    inv = sorted(p.invokes.get('p1', []), key=lambda r: r['n'])
    times = [sorted(t for t, _ in p.applies.get(('p1', r['n']), []))
             for r in inv]
    if [tt[0] if tt else None for tt in times] != [a for a, _ in ref] or \
            any(len(tt) != 2 for tt in times):
        V('C01.time', 'survivor-disturbed-by-deletion',
          f'p1 updates applied at {times}, ideal {ref}')
    # the victim: nothing after the deletion, nothing twice, nothing late
    for rec in p.invokes.get('v', []):
        if rec['t'] >= t_del:
            V('C01.deleted', 'deleted-process-invoked',
              f'victim invoked at t={rec["t"]} after its deletion at '
              f't={t_del}')
        ap = sorted(t for t, _ in p.applies.get(('v', rec['n']), []))
        # only the variable outside the deleted compartment can take it
        if len(ap) > 2 or (ap and (ap[-1] > t_del or ap[0] < rec['t'])):
            V('C01.deleted', 'update-of-deleted-process-applied-late',
              f'victim update {rec["n"]} (invoked {rec["t"]}, ts '
              f'{rec["ts"]}) applied at {ap}; deleted at {t_del}')
        due = rec['t'] + rec['ts']
        if due < t_del and len(ap) != 2:
            V('C01.lost', 'update-due-before-deletion-not-applied',
              f'victim update {rec["n"]} was due at {due} < deletion '
              f'{t_del} but applied at {ap}')


def mints_jobs(ctx):
    """Processes whose condition depends on the timestep argument ("do
    not run for intervals shorter than X"), against forcing calls that cut
    their last interval."""
    jobs = []
    for ts in (1, 2, 3):
        for x in (0.75, 1, 2):
            if x > ts:
                continue
            for sc in sched.scripts(1):
                for other in (None, 0.5, 1):
                    jobs.append(('M', ts, x, other, sc))
    return jobs


def run_mints(job, acc):
    _, ts, x, other, script = job
    procs = [(ts, 'always')] + ([(other, 'always')] if other else [])
    spec = sched.s_world(procs, script)
    spec['processes']['p0']['cond'] = {'$min_ts': x}
    spec['family'] = 'M'
    spec['job'] = job
    ex = worlds.execute(spec, guard_factory=sched.lasso_guard)
    p = sched.Parsed(ex)
    sched.record_states(acc, p)
    acc.case(key=job, outcome='M')
    V = lambda rule, fp, msg: acc.violate(  # noqa
        fw.violation(rule, fp, msg, spec))
    if ex.error:
        V('C01.crash', 'mints:' + sched.crash_fp(ex),
          f'unexpected {ex.error[2]!r}')
        return
    for rec in p.invokes.get('p0', []):
        if rec['ts'] < x:
            V('C01.quiet', 'invoked-for-an-interval-its-condition-rejects',
              f'p0 (runs only for intervals >= {x}) was invoked at '
              f't={rec["t"]} for an interval of length {rec["ts"]}')
            return
        ap = sorted(t for t, _ in p.applies.get(('p0', rec['n']), []))
        if len(ap) != 2 or ap[0] != ap[1] or not (
                rec['t'] <= ap[0] <= rec['t'] + rec['ts']):
            V('C01.time', 'conditional-process-update-misapplied',
              f'p0 update {rec["n"]} (invoked {rec["t"]}, ts {rec["ts"]}) '
              f'applied at {ap}')
            return
    # full intervals are never skipped: every full-length interval that
    # fits before the end of a call was simulated
    ref = sched.ideal_timeline([(ts, 'always')], script, 0)[0]
    full = [a for a, t_ in ref if t_ == ts]
    got_full = sorted(a for rec in p.invokes.get('p0', [])
                      for a, _ in p.applies.get(('p0', rec['n']), [])[:1]
                      if rec['ts'] == ts)
    if got_full[:len(full)] != full[:len(got_full)] or \
            len(got_full) < len(full):
        V('C01.lost', 'full-interval-of-conditional-process-skipped',
          f'p0 full intervals end at {got_full}, ideal {full}')


def bfs_jobs(ctx):
    scripts = afamily.A_SCRIPTS_QUICK if ctx.quick else \
        afamily.A_SCRIPTS_THOROUGH
    if ctx.quick:
        scripts = scripts[:2]
    return [('BFS', n, sc, True, fast, 200)
            for n in (1, 2) for sc in scripts
            for fast in ((False, True) if n == 2 and not ctx.quick
                         else (False,))]


def run_job(job, acc):
    if job[0] == 'V':
        run_v(job, acc)
        return
    if job[0] == 'M':
        run_mints(job, acc)
        return
    if job[0] == 'BFS':
        afamily.run_bfs_job(job, acc, MONITORS)
        return
    if job[0] == 'K':
        run_kill(job, acc)
        return
    if job[0] == 'S':
        run_s(job, acc, MONITORS)
    elif job[0] == 'Par':
        run_par(job, acc)
    else:
        afamily.run_a(job, acc, MONITORS)


def run(ctx):
    fw.preload_forkserver()
    acc = ctx.map(run_job, par_jobs(ctx), chunk=4)
    ctx.map(run_job, kill_jobs(ctx) + mints_jobs(ctx) + v_jobs(ctx),
            acc=acc)
    ctx.map(run_job, bfs_jobs(ctx), acc=acc, chunk=1)
    ctx.map(run_job, afamily.a_jobs(ctx), acc=acc, chunk=1)
    return ctx.map(run_job, s_jobs(ctx), acc=acc)


def replay(case):
    acc = fw.Acc()
    if case.get('family') == 'V':
        j = case['job']
        run_v((j[0], j[1], j[2], [tuple(c) for c in j[3]], tuple(j[4])),
              acc)
    elif case.get('family') == 'K':
        run_kill(case['job'], acc)
    elif case.get('family') == 'M':
        run_mints(case['job'], acc)
    elif case.get('family') == 'Par':
        fw.preload_forkserver()
        run_par(('Par', case['procs'], case['script'][:-1],
                 case['parallel']), acc)
    elif case.get('family') == 'S':
        run_s(s_job_of(case), acc, MONITORS)
    else:
        afamily.replay(case, acc, MONITORS)
    return [v for exs in acc.viol_examples.values() for v in exs]


RULE += (
    ' V-family: two processes return updates in every FORM (explicit {_value, _updater} with falsy values, a state array passed through as the update while a faster process changes it, two variables declared with one default array object); every row equals the initial values plus the ledger of updates as they were when returned.')

RULE += (
    ' V-family: one port is wired straight to a variable and returns bare values (False, 0, "", [] among them); a step whose update condition is false in two phases is invoked only after its condition was asked and answered True.')
