"""C12 - the emitted history is a faithful, ordered sequence of snapshots."""
import copy
import itertools

from vivarium.core.registry import Serializer
from vivarium.core.serialize import deserialize_value
from vivarium.library.units import units

from vmc import framework as fw
from vmc import sched, worlds

ID = 'C12'
LEVEL = 'model_checking'
RULE = (
    'S-family composites (1-2 processes, optional derived-value step, '
    'optional structural process that adds/deletes an emitting child) x '
    'every subset of 4 designated variables flagged _emit x store_schema '
    'overrides (branch on / branch off / leaf on) x emit_step in '
    '{1, 2, 3, 0.5} x scripts D^{<=1}.F; a variable with units and one '
    'with a custom serializer are always flagged. Oracle on every '
    'Emitter.emit call: record order, strictly increasing keys, rows == '
    'ideal-timeline batch times for emit_step 1, row == independently '
    'filtered snapshot, sub-sequence with identical content for larger '
    'emit_step. Distinct by world spec.')
ASSUMPTIONS = [
    'the snapshot compared with a row is Engine.state.get_value() read '
    'inside the user emitter\'s emit() call',
    'which variables are flagged is computed from the world spec alone '
    '(ports schemas + store_schema), not from the Store',
    'a liveness clause for emit_step > 1 (a row exists once a batch lies '
    'at or beyond call start + emit_step) is read into "emit_step"',
]
BOUNDS = {'quick': {'N': 2, 'script_prefix': 1},
          'thorough': {'N': 2, 'script_prefix': 2}}

DESIGNATED = [('s0', 'tok'), ('s0', 'num'), ('shared', 'tok'),
              ('shared', 'num')]
STORE_SCHEMAS = [None, {'s0': {'_emit': True}}, {'shared': {'_emit': False}},
                 {'shared': {'num': {'_emit': True}}},
                 # a single variable switched OFF at leaf level
                 {'shared': {'tok': {'_emit': False}},
                  's0': {'num': {'_emit': False}}},
                 # leaf-level OFF under a branch-level ON
                 {'s0': {'_emit': True, 'tok': {'_emit': False}}},
                 # a branch-level OFF acts on leaves two and three levels
                 # below it; a branch-level ON likewise
                 {'cell': {'_emit': False}},
                 {'cell': {'nucleus': {'_emit': False}},
                  'shared': {'_emit': True}},
                 # an override on a glob child that exists from the start
                 # survives the later _add of its siblings
                 {'kids': {'k0': {'v': {'_emit': False},
                                  'w': {'_emit': True}}}}]


class VmcSerializer(Serializer):
    python_type = int

    def serialize(self, data):
        return f'vmc<{data}>'


def grow_in_place(current, update):
    """A user updater that changes the value IN PLACE (the value object
    keeps its identity while its content changes)."""
    current.setdefault('keys', []).append(update)
    current['n'] = current.get('n', 0) + 1
    return current


def append_in_place(current, update):
    current.append(update)
    return current


from vmc import probes as _probes  # noqa: E402
_probes._register(_probes.updater_registry, 'vmc_grow_in_place',
                  grow_in_place)
_probes._register(_probes.updater_registry, 'vmc_append_in_place',
                  append_in_place)


VMC_SER = VmcSerializer()


def world(tss, flags, store_schema, emit_step, script, with_step, struct):
    processes, topology = {}, {}
    for i, ts in enumerate(tss):
        pid = f'p{i}'
        spec = sched.probe_spec(pid, ts, 'always')
        for port in ('priv', 'shared'):
            for var in ('tok', 'num', 'clk'):
                if var in spec['schema'][port]:
                    spec['schema'][port][var]['_emit'] = False
        if i == 0:
            for (store, var) in DESIGNATED:
                port = 'priv' if store == 's0' else 'shared'
                spec['schema'][port][var]['_emit'] = (store, var) in flags
            spec['schema']['priv']['mass'] = {
                '_default': 1.0 * units.fg, '_emit': True}
            spec['schema']['priv']['cs'] = {
                '_default': 0, '_emit': True, '_serializer': VMC_SER}
            # updates arrive in another compatible unit
            spec['update']['priv']['mass'] = 0.001 * units.pg
            spec['update']['priv']['cs'] = 1
            # a serialized variable that is updated in place
            spec['schema']['priv']['rec'] = {
                '_default': {'n': 0, 'keys': []}, '_emit': True,
                '_updater': 'vmc_grow_in_place', '_serializer': VMC_SER}
            spec['update']['priv']['rec'] = {'$key': 'e'}
            # an emitted list that its updater extends IN PLACE (no
            # serializer: the emitter is handed the live object)
            spec['schema']['priv']['log'] = {
                '_default': [], '_emit': True,
                '_updater': 'vmc_append_in_place'}
            spec['update']['priv']['log'] = {'$key': 'l'}
            # a nested branch: cell/size, cell/nucleus/dna,
            # cell/nucleus/pores/open (on, on, off)
            spec['schema']['cell'] = {
                'size': {'_default': 3, '_emit': True},
                'nucleus': {'dna': {'_default': 2, '_emit': True},
                            'pores': {'open': {'_default': 0,
                                               '_emit': False}}}}
            spec['update']['cell'] = {'size': 1, 'nucleus': {
                'dna': 1, 'pores': {'open': 1}}}
            # units + a custom serializer, named by this (first) declarer
            spec['schema']['shared']['qs'] = {
                '_default': 2.0 * units.fg, '_emit': True,
                '_serializer': VMC_SER}
            spec['update']['shared']['qs'] = 0.001 * units.pg
        else:
            # a co-declarer gives the same variable only a default with
            # units: the first declarer's serializer stays
            spec['schema']['shared']['qs'] = {
                '_default': 2.0 * units.fg, '_emit': True}
            for (store, var) in DESIGNATED:
                if store == 'shared':
                    spec['schema']['shared'][var]['_emit'] = \
                        (store, var) in flags
        processes[pid] = spec
        topology[pid] = {'priv': (f's{i}',), 'shared': ('shared',)}
        if i == 0:
            topology[pid]['cell'] = ('cell',)
    steps, flow = {}, {}
    if with_step:
        steps['st'] = {
            'cls': 'S', 'pid': 'st',
            'schema': {'shared': {'num': dict(sched.NUM, _emit=(
                           ('shared', 'num') in flags))},
                       'derived': {'copy': {'_default': -1,
                                            '_updater': 'set',
                                            '_emit': True}}},
            'update': {'derived': {'copy': {'$state': ('shared', 'num')}}}}
        flow['st'] = []
        topology['st'] = {'shared': ('shared',), 'derived': ('derived',)}
    if struct:
        # adds child c<n> at invocation 0 and 1, deletes c0 at invocation 2
        processes['op'] = {
            'cls': 'P', 'pid': 'op', 'ts': 1,
            'schema': {'kids': {'*': {
                'v': {'_default': 7, '_emit': True},
                'w': {'_default': 8, '_emit': False},
                'mass': {'_default': 1.0 * units.fg, '_emit': True}}},
                       # a second glob store whose sub-schema declares the
                       # OPPOSITE emit flags: a compartment moved into it
                       # keeps the flags it has
                       'arch': {'*': {
                'v': {'_default': 7, '_emit': False},
                'w': {'_default': 8, '_emit': True}}}},
            'update': {'$n': {
                0: {'kids': {'_add': [{'key': 'c0', 'state': {
                    'v': 1, 'mass': 0.003 * units.pg}}]}},
                1: {'kids': {'_add': [{'key': 'c1', 'state': {}}],
                             'c0': {'v': 10}}},
                2: {'kids': {'_delete': ['c0'], '_move': [{
                    'source': ('c1',), 'target': 'arch'}]}}},
                '$else': {}}}
        topology['op'] = {'kids': ('kids',), 'arch': ('arch',)}
    eng = {'emit_step': emit_step}
    if len(flags) % 2 == 1:
        # no topology in the configuration record: the record itself (the
        # experiment's id, name, time created) is still emitted, once,
        # before the first row
        eng['emit_topology'] = False
    # the initial value of the units variable is given in another
    # compatible unit and reaches the store without passing an updater
    state = {'s0': {'mass': 0.002 * units.pg}}
    if struct:
        state['kids'] = {'k0': {'v': 3}}
    if store_schema:
        eng['store_schema'] = store_schema
    return {'processes': processes, 'steps': steps, 'flow': flow,
            'topology': topology, 'script': list(script), 'engine': eng,
            'state': state, 'family': 'E', 'tss': tuple(tss), 'flags': tuple(flags),
            'store_schema': store_schema, 'emit_step': emit_step,
            'with_step': with_step, 'struct': struct,
            'procs': [(ts, 'always') for ts in tss]}


def flagged(spec):
    """Which (path) leaves are flagged, from the spec alone.

    Returns a predicate on leaf paths (tuples)."""
    on = set()
    for (store, var) in spec['flags']:
        on.add((store, var))
    on.add(('s0', 'mass'))
    on.add(('s0', 'cs'))
    on.add(('s0', 'rec'))
    on.add(('s0', 'log'))
    on.add(('cell', 'size'))
    on.add(('cell', 'nucleus', 'dna'))
    on.add(('shared', 'qs'))
    if spec['with_step']:
        on.add(('derived', 'copy'))
    ss = spec.get('store_schema') or {}

    def pred(path):
        val = path in on
        if spec['struct'] and path[0] in ('kids', 'arch') \
                and len(path) == 3:
            val = path[2] in ('v', 'mass')
        if path[0] == 'kids' and not spec['struct']:
            return False
        # store_schema overrides, applied once at construction
        node = ss
        for depth, key in enumerate(path):
            if not isinstance(node, dict) or key not in node:
                break
            node = node[key]
            if isinstance(node, dict) and '_emit' in node:
                val = node['_emit']
        return val
    return pred


ATOMIC = {'rec'}       # variables whose VALUE is a dictionary


def leaves(tree, path=()):
    out = {}
    if isinstance(tree, dict) and not (path and path[-1] in ATOMIC):
        for k, v in tree.items():
            out.update(leaves(v, path + (k,)))
    else:
        out[path] = tree
    return out


def expected_row(spec, snapshot):
    pred = flagged(spec)
    exp = {}
    for path, val in leaves(snapshot).items():
        if val == '<process>':
            continue
        if pred(path):
            exp[path] = val
    return exp


def row_matches(path, got, want):
    if path[-1] == 'mass':
        try:
            q = deserialize_value(got)
        except Exception:  # noqa
            return False
        return (isinstance(got, str) and q.units == units.fg
                and abs(q.magnitude - want.to(units.fg).magnitude) < 1e-9)
    if path[-1] in ('cs', 'rec'):
        return got == f'vmc<{want}>'
    if path[-1] == 'qs':
        # the custom serializer, applied to the value in declared units
        return got == f'vmc<{want.to(units.fg)}>'
    if isinstance(want, tuple):
        return tuple(got) == want
    return got == want and type(got) is type(want)


def run_world(spec):
    return worlds.execute(spec, guard_factory=sched.lasso_guard)


def check(spec, ex, base_rows=None):
    out = []
    V = lambda rule, fp, msg: out.append(  # noqa
        fw.violation(rule, fp, msg, spec))
    if ex.error:
        V('C12.crash', sched.crash_fp(ex), f'unexpected {ex.error[2]!r}')
        return out, None
    recs = ex.engine.emitter.records
    if not recs or recs[0]['table'] != 'configuration':
        V('C12.order', 'first-record-not-configuration',
          f'first record table={recs[0]["table"] if recs else None}')
    if sum(1 for r in recs if r['table'] == 'configuration') != 1:
        V('C12.order', 'configuration-count',
          'configuration record emitted %d times' % sum(
              1 for r in recs if r['table'] == 'configuration'))
    if any(r['table'] != 'history' for r in recs[1:]):
        V('C12.order', 'non-history-after-configuration', 'tables: %s' % [
            r['table'] for r in recs[:5]])
    rows = worlds.history_rows(ex)
    t0 = spec['engine'].get('initial_global_time', 0)
    if not rows or rows[0][0] != t0 or len(recs) < 2 or \
            recs[1]['table'] != 'history':
        V('C12.initial', 'no-initial-row',
          f'second record is not a history row at t={t0}')
    keys = [t for t, _, _ in rows]
    if any(b <= a for a, b in zip(keys, keys[1:])):
        V('C12.keys', 'not-strictly-increasing', f'row keys {keys}')
    if any(r['clock'] != r['data']['time'] for r in recs
           if r['table'] == 'history'):
        V('C12.keys', 'key-differs-from-clock',
          f'row keys {keys} vs clock at emit')
    # content: every row is the filtered snapshot
    for (T, data, snap) in rows:
        exp = expected_row(spec, snap)
        got = leaves(data)
        got = {p: v for p, v in got.items()
               if not (isinstance(v, dict) and not v)}
        if set(got) != set(exp):
            extra = sorted(set(got) - set(exp))
            missing = sorted(set(exp) - set(got))
            V('C12.content', 'extra-variable' if extra else
              'missing-variable',
              f'row t={T}: extra {extra} missing {missing}')
            break
        bad = [p for p in exp if not row_matches(p, got[p], exp[p])]
        if bad:
            V('C12.content', 'value-differs-from-snapshot',
              f'row t={T}: {bad[0]} emitted {got[bad[0]]!r} snapshot '
              f'{exp[bad[0]]!r}')
            break
    # the initial row already shows the initial step phase
    if spec['with_step'] and rows:
        snap = rows[0][2]
        if snap.get('derived', {}).get('copy') != \
                snap.get('shared', {}).get('num'):
            V('C12.initial', 'initial-row-before-step-phase',
              f'initial row snapshot derived.copy='
              f'{snap.get("derived", {}).get("copy")} shared.num='
              f'{snap.get("shared", {}).get("num")}')
    # rows reflect this time's updates and steps
    ref = sched.ideal_timeline(spec['procs'], spec['script'], t0)
    due = sorted(a for seq in ref.values() for a, _ in seq)
    batches = sorted(set(due))
    if spec['struct']:
        batches = None
    for (T, data, snap) in rows:
        n_due = sum(1 for a in due if a <= T)
        if snap.get('shared', {}).get('num') != n_due:
            V('C12.content', 'row-before-updates-of-its-time',
              f'row t={T}: shared.num={snap.get("shared", {}).get("num")}'
              f' but {n_due} updates are due by then')
            break
        if spec['with_step'] and snap.get('derived', {}).get('copy') != \
                snap.get('shared', {}).get('num'):
            V('C12.content', 'row-before-steps-of-its-time',
              f'row t={T}: derived.copy != shared.num in {snap}')
            break
    if spec['emit_step'] == 1 and batches is not None:
        if keys != [t0] + batches:
            V('C12.rows', 'rows-differ-from-batch-times',
              f'row keys {keys}, updates were applied at {batches}')
    if spec['emit_step'] != 1 and base_rows is not None:
        base = {t: (d, s) for t, d, s in base_rows}
        for (T, data, snap) in rows:
            if T not in base:
                V('C12.subset', 'row-not-in-emit-step-1-run',
                  f'row t={T} not among {sorted(base)}')
                break
            if fw.jdump(data) != fw.jdump(base[T][0]):
                V('C12.subset', 'content-differs-from-emit-step-1-run',
                  f'row t={T}: {data} vs {base[T][0]}')
                break
        # liveness
        base_keys = sorted(base)
        for (s, E, force) in sched.call_windows(spec['script'], t0):
            cand = [t for t in base_keys
                    if s < t <= E and t >= s + spec['emit_step']]
            if cand and not any(s + spec['emit_step'] <= t <= E
                                for t in keys):
                V('C12.subset', 'no-row-after-emit-step-elapsed',
                  f'call window [{s}, {E}]: batches at {cand} lie beyond '
                  f'start + emit_step but no row was emitted; rows {keys}')
                break
    return out, rows


def jobs(ctx):
    out = []
    subsets = [tuple(c) for k in range(5)
               for c in itertools.combinations(DESIGNATED, k)]
    tsets = [(1,), (2,), (0.75, 1), (2, 0.5)] if ctx.quick else \
        [(1,), (2,), (0.75,), (0.75, 1), (2, 0.5), (1.25, 3), (3, 1)]
    scripts = sched.scripts(1 if ctx.quick else 2)
    if ctx.quick:
        scripts = [s for s in scripts if s[-1][0] == 'update' or
                   len(s) == 1]
    for tss in tsets:
        for sc in scripts:
            for with_step, struct in ((False, False), (True, False),
                                      (True, True)):
                # full flag x store_schema product on the first script only
                full = sc is scripts[0] or not ctx.quick
                for flags in (subsets if full else
                              [subsets[0], subsets[-1], subsets[5]]):
                    for ss in (STORE_SCHEMAS if full else
                               [None, STORE_SCHEMAS[2]]):
                        out.append((tss, flags, ss, sc, with_step, struct))
    return out


def ram_differential(spec, rows, acc):
    """The same world through the library's RAMEmitter: what it hands
    back row by row equals what was emitted at the time (a row is a
    snapshot, not a view of objects that keep changing)."""
    ex2 = worlds.execute(spec, guard_factory=sched.lasso_guard,
                         emitter={'type': 'timeseries'})
    if ex2.error:
        acc.violate(fw.violation(
            'C12.crash', 'ram:' + sched.crash_fp(ex2),
            f'RAMEmitter run: unexpected {ex2.error[2]!r}', spec))
        return
    got = ex2.engine.emitter.get_data()
    want = {t: d for t, d, _ in rows}
    if list(got) != list(want):
        acc.violate(fw.violation(
            'C12.keys', 'ram-emitter-keys-differ',
            f'RAMEmitter keys {list(got)} vs emitted {list(want)}', spec))
        return
    for t in want:
        a = fw.jdump(leaves_plain(got[t]))
        b = fw.jdump(leaves_plain(want[t]))
        if a != b:
            acc.violate(fw.violation(
                'C12.content', 'ram-emitter-row-is-not-a-snapshot',
                f'row t={t}: RAMEmitter returns {a[:300]}, emitted at the '
                f'time {b[:300]}', spec))
            return


def leaves_plain(tree):
    if isinstance(tree, dict):
        return {k: leaves_plain(v) for k, v in sorted(tree.items())}
    if isinstance(tree, (list, tuple)):
        return [leaves_plain(v) for v in tree]
    return str(tree) if not isinstance(
        tree, (int, float, str, bool, type(None))) else tree


def run_job(job, acc):
    tss, flags, ss, sc, with_step, struct = job
    base_rows = None
    for emit_step in (1, 2, 3, 0.5):
        spec = world(tss, flags, ss, emit_step, sc, with_step, struct)
        ex = run_world(spec)
        p = sched.Parsed(ex)
        sched.record_states(acc, p)
        viols, rows = check(spec, ex, base_rows)
        if emit_step == 1:
            base_rows = rows
            if rows and not viols and ss is None and len(flags) in (0, 4):
                ram_differential(spec, rows, acc)
        acc.case(key=(job, emit_step),
                 outcome=f'E:emit_step={emit_step}:rows='
                         f'{len(rows) if rows else 0}')
        acc.validated += 1
        for v in viols:
            acc.violate(v)
        if len(acc.samples) < 2 and emit_step == 2 and rows:
            acc.sample({'tss': tss, 'flags': flags, 'store_schema': ss,
                        'script': sc, 'step': with_step, 'struct': struct,
                        'emit_step': emit_step,
                        'row_keys': [t for t, _, _ in rows]})


def run(ctx):
    return ctx.map(run_job, jobs(ctx))


def replay(case):
    acc = fw.Acc()
    job = (case['tss'], case['flags'], case['store_schema'], case['script'],
           case['with_step'], case['struct'])
    run_job(job, acc)
    return [v for exs in acc.viol_examples.values() for v in exs]


RULE += (
    ' Every world also holds a nested branch (cell/size, cell/nucleus/dna, cell/nucleus/pores/open) with branch-level store_schema flags two levels above the leaves, and a units variable whose custom serializer is named by its first declarer only.')

RULE += (
    ' The structural worlds also MOVE a child into a second glob store whose sub-schema declares the opposite emit flags (the moved compartment keeps its own). Half of the worlds (odd number of flags) are built with emit_topology=False: one configuration record is still the first thing emitted.')
