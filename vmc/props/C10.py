"""C10 - the engine runs exactly what is in the hierarchy after any
structural history.  Explorer B x victim status."""
import copy
import itertools

from vivarium.core.composer import Composite
from vivarium.core.process import Process

from vmc import framework as fw
from vmc import probes, worlds
from vmc import structural as st
from vmc import agents
from vmc.probes import MonitoredEngine

ID = 'C10'
LEVEL = 'model_checking'
RULE = (
    'explorer B: BFS over histories of _add/_delete/_generate/_divide/'
    '_move (and pairs) over compartments that hold a probe process '
    '(timestep 1 or 3, so that it is idle / due in the same batch / in '
    'flight when the operation is applied), flow steps s1 <- s2 and a '
    'legacy deriver; operations issued by a process or by a step, listed '
    'before or after the victims; engine built from a Composite. Oracle: '
    '(i) the multiset of (path, time) process invocations and the step '
    'runs of every phase equal the reference schedule derived from the '
    'reference hierarchy; (ii) Engine.processes/steps/flow/topology == '
    'what the store reports, and the Composite the engine was built from '
    'holds the same dictionaries; (iii) a new engine built from the '
    'published composite and the current state continues with the same '
    'rows as the original. A case is one (history, issuer, timesteps, '
    'listing order). Agents family (vmc.agents): the same operations '
    'issued by a controller process / step INSIDE the compartments (self-'
    'division with copied or fresh processes, self-deletion, self-move, '
    'operations on siblings), growth timesteps 1 and 2, both listing '
    'orders; same oracles.')
ASSUMPTIONS = [
    'steps are idempotent set-derivations, so the extra constructor phase '
    'of the rebuilt engine is unobservable',
    'a step of a compartment that is moved during a step phase may or may '
    'not run again under its new path in that same phase',
]
BOUNDS = {'quick': {'depth': 2}, 'thorough': {'depth': 3}}

INITS = [{'X': ['a', 'b'], 'Y': []}, {'X': ['a'], 'Y': []}]


def gen_kind_of(kind):
    return kind if kind in ('nested', 'dproc') else 'full'


# the steps a compartment of each kind holds
STEPS_OF = {'full': ('d0', 's1', 's2'), 'nested': ('d0', 's1', 's2'),
            'dproc': ('d0',), 'nos2': ('d0', 's1')}


def world(init, history, issuer, kind, ts_of, op_first, horizon):
    script, script2 = {}, {}
    for i, op in enumerate(history):
        n = i if issuer == 'process' else i + 1
        script[n] = st.op_update(op, gen_kind_of(kind), 1)
        u2 = st.op2_update(op, gen_kind_of(kind), 1)
        if u2 is not None:
            script2[n] = u2
    spec = st.initial_world(kind, ts_of, issuer, script, init=init,
                            op2_script=script2)
    spec['processes']['ticker'] = {
        'cls': 'P', 'pid': 'ticker', 'ts': 1, 'log_states': False,
        'schema': {'tk': {'n': dict(st.VAR)}}, 'update': {'tk': {'n': 1}}}
    spec['topology']['ticker'] = {'tk': ('ticker_store',)}
    if op_first and issuer == 'process':
        spec['processes'] = dict(
            [('op', spec['processes']['op']),
             ('op2', spec['processes']['op2'])] +
            [(k, v) for k, v in spec['processes'].items()
             if k not in ('op', 'op2')])
    if kind == 'nested':
        # the flow steps' outputs stay declared (by the operators' glob
        # sub-schema) when a sub-compartment is deleted, so that a rebuilt
        # engine is given them too
        for part in ('processes', 'steps'):
            for name in ('op', 'op2'):
                o = spec[part].get(name)
                if o:
                    for c in st.CONTAINERS:
                        for out in ('o_s1', 'o_s2'):
                            o['schema'][c]['*'][out] = {
                                '_default': -1, '_updater': 'set',
                                '_emit': True}
    spec['entry'] = 'composite'
    spec['script'] = [('update', horizon)]
    return spec


def render(tree):
    if isinstance(tree, dict):
        return {k: render(v) for k, v in tree.items()}
    if isinstance(tree, Process):
        return ('process', id(tree))
    if isinstance(tree, (list, tuple)):
        return [render(v) for v in tree]
    return tree


def prune(tree):
    """Drop empty dictionaries (None == {} for published parts)."""
    if isinstance(tree, dict):
        out = {k: prune(v) for k, v in tree.items()}
        return {k: v for k, v in out.items() if v != {} and v is not None}
    return tree


def victim_status(history, issuer, ts_of, models):
    """(overall label, [per-operation {(container, key): status}]) with
    status idle / due / inflight for compartments that hold a process."""
    per_op = []
    labels = set()
    for i, op in enumerate(history):
        t_apply = i + 1
        st_ = {}
        for (c, k) in sorted(models[i].footprint(op)):
            comp = models[i].t[c].get(k)
            if not comp or comp['inner'] == 'vars':
                continue
            aligned = (t_apply - comp['born']) % comp['ts'] == 0
            if issuer == 'step':
                st_[(c, k)] = 'idle' if aligned else 'inflight'
            else:
                st_[(c, k)] = 'due' if aligned else 'inflight'
        per_op.append(st_)
        labels |= set(st_.values())
    return '+'.join(sorted(labels)) or 'none', per_op


def busy_move(history, per_op):
    """True if some _move relocated a compartment whose process had an
    update due in the same batch or in flight (known finding K2)."""
    for op, st_ in zip(history, per_op):
        subs = op[1:] if op[0] == 'pair' else [op]
        for o in subs:
            if o[0] in ('mov', 'movupd') and st_.get((o[1], o[2])) in (
                    'due', 'inflight'):
                return True
    return False


def vacated_and_generated(history):
    """True if one update moves a compartment away and generates its key
    anew (known finding K9: the engine registers the additions of an
    update first and unregisters everything below the move's source
    afterwards, so the new compartment is in the hierarchy but is never
    run)."""
    for op in history:
        if op[0] == 'pair' and op[1][0] in ('mov', 'movupd') and \
                op[2][0] == 'gen' and op[1][1:3] == op[2][1:3]:
            return True
    return False


def expected_schedule(init, history, issuer, kind, ts_of, horizon):
    """Reference schedule from the reference hierarchy.

    Returns ({(path, time)} process invocations,
             {time: {(path, step name): expected run count | (lo, hi)}})
    """
    models = st.replay_model(init, kind, history,
                             gen_kind=gen_kind_of(kind), ts_of=ts_of)
    # cells with their life span
    cells = {}      # id(cell) -> dict(path history, born, ts, inner)
    for c in st.CONTAINERS:
        for k, comp in models[0].t[c].items():
            cells[id(comp['cell'])] = {
                'born': 0, 'ts': comp['ts'], 'inner': comp['inner'],
                'where': {0: (c, k)}}
    for i, m in enumerate(models[1:]):
        t = i + 1
        for c in st.CONTAINERS:
            for k, comp in m.t[c].items():
                cid = id(comp['cell'])
                if cid not in cells:
                    cells[cid] = {'born': t, 'ts': comp['ts'],
                                  'inner': comp['inner'], 'where': {}}
                cells[cid]['where'][t] = (c, k)
    last = len(history)
    proc_inv = set()
    for cid, cell in cells.items():
        if cell['inner'] == 'vars':
            continue
        for t in range(cell['born'], horizon):
            tt = min(t, last)
            if tt not in cell['where']:
                if t > max(cell['where']) if cell['where'] else True:
                    break
                continue
            if (t - cell['born']) % cell['ts'] == 0:
                proc_inv.add((cell['where'][tt] + ('proc',), t))
    # steps: phase at time t (t = 0 is the constructor)
    step_runs = {}
    for t in range(0, horizon + 1):
        tt = min(t, last)
        before = models[min(max(t - 1, 0), last)] if t > 0 else models[0]
        after = models[tt]
        runs = {}
        for c in st.CONTAINERS:
            names_after = after.t[c]
            names_before = before.t[c]
            for k, comp in names_after.items():
                if comp['inner'] not in STEPS_OF:
                    continue
                cid = id(comp['cell'])
                existed = any(id(x['cell']) == cid and kk == k
                              for kk, x in names_before.items()) \
                    if t > 0 else True
                if issuer == 'step' and 0 < t <= last and existed and \
                        comp['inner'] == 'nos2' and \
                        names_before[k]['inner'] == 'nested':
                    # its last flow step is deleted in this very phase: it
                    # may have had its turn before
                    runs[(c, k, 's2')] = (0, 1)
                for s in STEPS_OF[comp['inner']]:
                    if issuer == 'process' or t == 0 or t > last:
                        runs[(c, k, s)] = 1
                    else:
                        # operation issued in this very phase
                        if existed:
                            runs[(c, k, s)] = 1
                        elif _moved_in(before, after, cid):
                            # moved in this phase: its deriver and first
                            # layer ran before the move, the later layer
                            # may or may not run under the new path
                            runs[(c, k, s)] = (0, 1) if s == 's2' else 1
                        else:
                            runs[(c, k, s)] = 0
            if issuer == 'step' and 0 < t <= last:
                # compartments removed in this phase: the deriver and the
                # first layer still ran, the later layer must not
                for k, comp in names_before.items():
                    if comp['inner'] not in STEPS_OF:
                        continue
                    cid = id(comp['cell'])
                    still = any(id(x['cell']) == cid and kk == k
                                for kk, x in names_after.items())
                    moved = any(id(x['cell']) == cid
                                for cc in st.CONTAINERS
                                for x in after.t[cc].values())
                    if moved and not still:
                        # runs are keyed by the new path (below)
                        continue
                    if not still:
                        runs[(c, k, 'd0')] = 1
                        if 's1' in STEPS_OF[comp['inner']]:
                            runs[(c, k, 's1')] = 1
                            runs[(c, k, 's2')] = 0
        step_runs[t] = runs
    return proc_inv, step_runs, models


def _moved_in(before, after, cid):
    was = any(id(x['cell']) == cid for c in st.CONTAINERS
              for x in before.t[c].values())
    return was


def run_history(job, acc):
    if job[0] == 'bare':
        run_bare_move(job, acc)
        return
    if job[0] == 'agents':
        agents.judge(job[1:], acc, 'C10')
        return
    if job[0] == 'replace':
        run_replace(job, acc)
        return
    init_i, history, issuer, kind, ts_pair, op_first = job
    init = INITS[init_i]
    ts_of = {'a': ts_pair[0], 'b': ts_pair[1]}
    horizon = len(history) + 3
    case = {'init': init_i, 'history': history, 'issuer': issuer,
            'kind': kind, 'ts': ts_pair, 'op_first': op_first}
    spec = world(init, history, issuer, kind, ts_of, op_first, horizon)
    ex = worlds.execute(spec)
    proc_inv, step_runs, models = expected_schedule(
        init, history, issuer, kind, ts_of, horizon)
    status, per_op = victim_status(history, issuer, ts_of, models)
    k2 = busy_move(history, per_op)
    k9 = vacated_and_generated(history)
    names = '+'.join(o[0] if o[0] != 'pair' else
                     'pair(' + ','.join(x[0] for x in o[1:]) + ')'
                     for o in history)
    V = lambda rule, fp, msg: acc.violate(  # noqa
        fw.violation(rule, fp, msg, case))
    acc.case(key=(init_i, history, issuer, kind, ts_pair, op_first),
             outcome=f'{issuer}:{status}')
    acc.state(models[-1].canon())
    for a, b, op in zip(models, models[1:], history):
        acc.transition(a.canon(), b.canon(), (op[0], status))
    acc.validated += 1
    last_op = history[-1]
    opname = last_op[0] if last_op[0] != 'pair' else 'pair:' + '+'.join(
        sorted(o[0] for o in last_op[1:]))
    if ex.error:
        e = ex.error[2]
        msg = str(e)
        kindmsg = 'still-pending' if 'still pending' in msg else \
            type(e).__name__
        fp = f'{opname}:{issuer}:{status}:{kindmsg}'
        if kindmsg == 'still-pending' and k2:
            fp = 'still-pending-after-move-of-busy-process'
        V('C10.crash', fp,
          f'history {history} ({issuer}, ts {ts_pair}, victims {status}): '
          f'unexpected {e!r}'[:600])
        return
    eng = ex.engine
    # ---- (i) who was invoked, and when
    recs = [r for r in eng.emitter.records if r['table'] == 'history']
    paths_at = {r['data']['time']: r['paths'] for r in recs}
    got_inv = set()
    phases = {}
    cur_t = 0
    for ev in ex.trace:
        if ev[0] == 'clock':
            cur_t = ev[2]
        elif ev[0] == 'invoke' and ev[2] == 'proc':
            t = ev[4]
            path = paths_at.get(t, {}).get(ev[1])
            got_inv.add((path, t))
        elif ev[0] == 'invoke' and ev[7] and ev[2] in ('d0', 's1', 's2'):
            t = ev[4]
            phases.setdefault(t, []).append((ev[1], ev[2]))
    # only invocations at integer ticks below the horizon are predicted
    got_inv = {(p, t) for p, t in got_inv if t < horizon}
    if got_inv != proc_inv:
        missing = sorted(proc_inv - got_inv, key=str)
        extra = sorted(got_inv - proc_inv, key=str)
        kind_ = 'process-not-invoked-on-schedule' if missing else \
            'unexpected-process-invocation'
        fp = f'{kind_}:{opname}:{issuer}:{status}'
        if k2:
            fp = 'schedule-after-move-of-busy-process'
        if k9 and missing and not extra:
            fp = 'generated-under-key-vacated-by-move-in-same-update'
        V('C10.schedule', fp,
          f'history {history} ({issuer}, ts {ts_pair}): invocations '
          f'missing {missing[:4]} extra {extra[:4]}')
        return
    # steps: uid -> path at the time of the phase.  A phase at time t runs
    # before the row of time t is emitted; paths are taken from that row,
    # and for removed compartments from the previous row.
    for t, runs in sorted(step_runs.items()):
        if t > horizon:
            continue
        seen = {}
        row_paths = paths_at.get(t, {})
        prev_paths = paths_at.get(t - 1, {}) if t > 0 else {}
        for uid, name in phases.get(t, []):
            path = row_paths.get(uid) or prev_paths.get(uid)
            key = tuple(path[:2]) + (name,) if path else (None, uid, name)
            seen[key] = seen.get(key, 0) + 1
        for key in set(seen) | set(runs):
            want = runs.get(key, 0)
            got = seen.get(key, 0)
            ok = (want[0] <= got <= want[1]) if isinstance(want, tuple) \
                else got == want
            if not ok:
                V('C10.steps', f'step-ran-{got}-times-expected-{want}:'
                  f'{opname}:{issuer}',
                  f'history {history} ({issuer}): phase at t={t}: step '
                  f'{key} ran {got} times, expected {want}')
                return
    # ---- steps ran at their place in the flow: data-flow evidence in
    # every row (d0, s1 copy v; s2 copies what s1 wrote in this phase)
    for r in recs:
        t = r['data']['time']
        m = models[min(int(t), len(models) - 1)] if t == int(t) else None
        if m is None:
            continue
        for c in st.CONTAINERS:
            for k, comp in m.t[c].items():
                if comp['inner'] not in STEPS_OF:
                    continue
                if issuer == 'step' and comp['born'] == t and t > 0:
                    continue       # created in this phase: runs next time
                node = r['snapshot'].get(c, {}).get(k)
                if not isinstance(node, dict):
                    continue
                outs = tuple(node.get(f'o_{s}')
                             for s in STEPS_OF[comp['inner']])
                touched_now = issuer == 'step' and 0 < int(t) <= len(
                    history) and (c, k) in models[int(t) - 1].footprint(
                        history[int(t) - 1])
                if touched_now:
                    # the operator step touched it in this very phase,
                    # after / next to its own steps
                    continue
                if any(o != node.get('v') for o in outs):
                    V('C10.steps', f'step-outputs-stale:{opname}:{issuer}',
                      f'history {history} ({issuer}): at t={t} '
                      f'{c}/{k} has v={node.get("v")} but step outputs '
                      f'(d0, s1, s2) = {outs}: a step did not run at its '
                      f'place in the flow')
                    return
    # ---- (ii) the published composite describes the hierarchy
    pub = {'processes': eng.processes, 'steps': eng.steps,
           'flow': eng.flow, 'topology': eng.topology}
    fromstore = {'processes': eng.state.get_processes(),
                 'steps': eng.state.get_steps(),
                 'flow': eng.state.get_flow(),
                 'topology': eng.state.get_topology()}
    if kind == 'dproc':
        # a legacy deriver may be listed under 'processes' (where it was
        # given) or under 'steps' (where the store reports it)
        pub = dict(pub, **dict(zip(('processes', 'steps'), _steps_apart(
            pub['processes'], pub['steps']))))
    for part in pub:
        a, b = prune(render(pub[part])), prune(render(fromstore[part] or {}))
        if part == 'flow':
            # a step with an empty dependency list is not "no flow entry"
            a, b = render(pub[part]), render(fromstore[part] or {})
            a, b = _drop_empty_dicts(a), _drop_empty_dicts(b)
        if a != b:
            V('C10.published', f'engine-{part}-differs-from-hierarchy:'
              f'{opname}',
              f'history {history}: Engine.{part} = {a}, the hierarchy '
              f'holds {b}')
            return
    comp = getattr(eng, '_vmc_composite', None)
    if comp is not None:
        comp = {part: comp[part] for part in pub}
        if kind == 'dproc':
            comp['processes'], comp['steps'] = _steps_apart(
                comp['processes'], comp['steps'])
        for part in pub:
            a = _drop_empty_dicts(render(comp[part]))
            b = _drop_empty_dicts(render(pub[part]))
            if a != b:
                V('C10.published', f'composite-{part}-not-written-back:'
                  f'{opname}',
                  f'history {history}: the Composite the engine was built '
                  f'from has {part} = {a}, the engine publishes {b}')
                return
    # ---- (iii) a rebuilt engine continues identically
    try:
        state = _pure_state(eng.state.get_value())
        new_comp = copy.deepcopy(Composite({
            'processes': eng.processes, 'steps': eng.steps,
            'flow': eng.flow, 'topology': eng.topology}))
        probes.TRACE = None
        rebuilt = MonitoredEngine(
            composite=new_comp, initial_state=copy.deepcopy(state),
            initial_global_time=eng.global_time,
            emitter={'type': 'vmc_probe'}, display_info=False)
        rebuilt.update(2)
        n0 = len(eng.emitter.records)
        probes.ENGINE = eng
        eng.update(2)
        cont = [_row(r) for r in eng.emitter.records[n0:]]
        probes.ENGINE = rebuilt
        reb = [_row(r) for r in rebuilt.emitter.records[2:]]
    except Exception as e:  # noqa
        V('C10.rebuild', f'raises-{type(e).__name__}:{opname}',
          f'history {history}: rebuilding / continuing raised {e!r}'[:500])
        return
    if cont != reb:
        diff = next((a, b) for a, b in itertools.zip_longest(cont, reb)
                    if a != b)
        V('C10.rebuild', f'rebuilt-engine-diverges:{opname}',
          f'history {history}: continued engine row {diff[0]}, rebuilt '
          f'engine row {diff[1]}')
        return
    if len(acc.samples) < 3 and len(history) == 2:
        acc.sample({'history': history, 'issuer': issuer, 'ts': ts_pair,
                    'victims': status,
                    'process_invocations': sorted(map(str, proc_inv))[:8]})


def _steps_apart(processes, steps):
    """(processes without the ones whose is_step() is true, steps plus
    those)."""
    def split(tree):
        procs, stps = {}, {}
        for k, v in (tree or {}).items():
            if isinstance(v, dict):
                p, s_ = split(v)
                if p:
                    procs[k] = p
                if s_:
                    stps[k] = s_
            elif isinstance(v, Process) and v.is_step():
                stps[k] = v
            else:
                procs[k] = v
        return procs, stps

    def merge(a, b):
        out = dict(a)
        for k, v in b.items():
            if isinstance(v, dict) and isinstance(out.get(k), dict):
                out[k] = merge(out[k], v)
            else:
                out[k] = v
        return out
    p, moved = split(processes)
    return p, merge(_plain(steps), moved)


def _plain(tree):
    return {k: (_plain(v) if isinstance(v, dict) else v)
            for k, v in (tree or {}).items()}


def _drop_empty_dicts(tree):
    if isinstance(tree, dict):
        out = {k: _drop_empty_dicts(v) for k, v in tree.items()}
        return {k: v for k, v in out.items()
                if not (isinstance(v, dict) and not v)}
    return tree


def _pure_state(tree):
    if isinstance(tree, dict):
        out = {}
        for k, v in tree.items():
            if isinstance(v, tuple) and len(v) == 2 and isinstance(
                    v[0], Process):
                continue
            if isinstance(v, Process):
                continue
            out[k] = _pure_state(v)
        return out
    return copy.deepcopy(tree)


def _row(rec):
    d = dict(rec['data'])
    t = d.pop('time')

    def norm(v):
        if isinstance(v, dict):
            return {k: norm(x) for k, x in sorted(v.items())}
        if isinstance(v, tuple):
            return sorted(map(str, v))
        return v
    return (t, fw.jdump(norm(d)))


def bare_move_world(tick, ts, issuer):
    """A _move whose source is a single process node (not a compartment):
    the process must keep running - at its new place - afterwards."""
    counter = {'cls': 'P', 'pid': 'counter', 'ts': ts,
               'schema': {'box': {'count': dict(st.VAR)}},
               'update': {'box': {'count': 1}}}
    n = tick if issuer == 'process' else tick + 1
    mover = {'cls': 'P' if issuer == 'process' else 'S', 'pid': 'mover',
             'ts': 1, 'log_states': False,
             'schema': {'a': {}, 'b': {}},
             'update': {'$n': {n: {'a': {'_move': [{
                 'source': 'counter', 'target': 'b'}]}}}, '$else': {}}}
    keep = {'cls': 'P', 'pid': 'keep', 'ts': 1, 'log_states': False,
            'schema': {'bb': {'count': dict(st.VAR)}}, 'update': {}}
    spec = {'processes': {'a': {'counter': counter}, 'keep': keep,
                          'ticker': {'cls': 'P', 'pid': 'ticker', 'ts': 1,
                                     'log_states': False,
                                     'schema': {'tk': {'n': dict(st.VAR)}},
                                     'update': {'tk': {'n': 1}}}},
            'steps': {}, 'flow': {},
            'topology': {'a': {'counter': {'box': ('box',)}},
                         'ticker': {'tk': ('tks',)},
                         'keep': {'bb': ('b', 'box')},
                         'mover': {'a': ('a',), 'b': ('b',)}},
            'state': {'a': {'box': {'count': 100}},
                      'b': {'box': {'count': 500}}},
            'script': [('update', 6)], 'entry': 'composite'}
    if issuer == 'process':
        spec['processes']['mover'] = mover
    else:
        spec['steps']['mover'] = mover
        spec['flow']['mover'] = []
    return spec


def run_bare_move(job, acc):
    _, tick, ts, issuer = job
    spec = bare_move_world(tick, ts, issuer)
    case = {'special': 'bare-move', 'job': job}
    V = lambda rule, fp, msg: acc.violate(  # noqa
        fw.violation(rule, fp, msg, case))
    ex = worlds.execute(spec)
    acc.case(key=job, outcome='bare-move')
    busy = (tick + 1) % ts != 0 or issuer == 'process'
    if ex.error:
        fp = 'still-pending-after-move-of-busy-process' if busy and \
            'still pending' in str(ex.error[2]) else \
            f'bare-move:{type(ex.error[2]).__name__}'
        V('C10.crash', fp, f'{job}: unexpected {ex.error[2]!r}'[:400])
        return
    eng = ex.engine
    paths = {p for p in eng.process_paths}
    if ('b', 'counter') not in paths or ('a', 'counter') in paths:
        V('C10.schedule', 'moved-process-not-registered-at-new-path',
          f'{job}: the engine runs {sorted(paths)}; the hierarchy holds '
          f'the counter at b/counter')
        return
    invs = [ev[4] for ev in ex.trace if ev[0] == 'invoke' and
            ev[2] == 'counter']
    t_move = tick + 1
    after = [t for t in invs if t >= t_move]
    if not busy and after != [t for t in range(t_move, 6)
                              if (t - t_move) % ts == 0]:
        V('C10.schedule', 'moved-process-not-invoked-on-schedule',
          f'{job}: counter invoked at {invs} (moved at {t_move})')
        return
    state = eng.state.get_value()
    total = state['a']['box']['count'] - 100 + \
        state['b']['box']['count'] - 500
    if not busy and total != len(invs):
        V('C10.schedule', 'moved-process-updates-lost',
          f'{job}: {len(invs)} invocations but the two boxes grew by '
          f'{total}')


def run_replace(job, acc):
    """A _generate onto a key that holds a compartment whose process has
    an update IN FLIGHT replaces that process: the old one contributes
    nothing more, the new one is invoked from the time it was put there."""
    from vivarium.core.engine import Engine
    _, tick, old_ts, new_ts, issuer = job
    case = {'special': 'replace', 'job': job}
    acc.case(key=job, outcome='replace')
    V = lambda rule, fp, msg: acc.violate(  # noqa
        fw.violation(rule, fp, msg, case))

    def worker(pid, ts, amount):
        return probes.Probe({
            'pid': pid, 'ts': ts, 'log_states': False,
            'schema': {'out': {'v': {'_default': 0, '_emit': True}}},
            'update': {'out': {'v': amount}}})
    new = worker('new', new_ts, 1)
    n = tick if issuer == 'process' else tick + 1
    gen = {'pid': 'gen', 'log_states': False,
           'schema': {'agents': {'*': {}}},
           'update': {'$n': {n: {'agents': {'_generate': [{
               'key': 'c', 'processes': {'w': new},
               'topology': {'w': {'out': ('b',)}},
               'initial_state': {}}]}}}, '$else': {}}}
    tick_p = probes.Probe({'pid': 'tick', 'ts': 1, 'log_states': False,
                           'schema': {'t': {'n': {'_default': 0}}},
                           'update': {'t': {'n': 1}}})
    kw = {'processes': {'tick': tick_p,
                        'agents': {'c': {'w': worker('old', old_ts, 100)}}},
          'topology': {'tick': {'t': ('clock',)},
                       'gen': {'agents': ('agents',)},
                       'agents': {'c': {'w': {'out': ('a',)}}}}}
    if issuer == 'step':
        kw['steps'] = {'gen': probes.ProbeStep(gen)}
        kw['flow'] = {'gen': []}
    else:
        kw['processes']['gen'] = probes.Probe(dict(gen, ts=1))
    try:
        eng = Engine(emitter={'type': 'timeseries'}, display_info=False,
                     **kw)
        eng.update(tick + 1 + 4 * new_ts)
        data = eng.emitter.get_data()
    except Exception as e:  # noqa
        V('C10.crash', f'replace:{type(e).__name__}',
          f'{job}: unexpected {e!r}'[:400])
        return
    t_r = tick + 1
    done = (t_r // old_ts)          # intervals the old process completed
    got = {t: (d['agents']['c'].get('a', {}).get('v'),
               d['agents']['c'].get('b', {}).get('v', 0))
           for t, d in data.items()}
    want = {t: (100 * min(int(t // old_ts), done),
                max(0, int((t - t_r) // new_ts)))
            for t in data}
    if got != want:
        bad = next(t for t in sorted(got) if got[t] != want[t])
        V('C10.schedule', 'replaced-process-still-contributes-or-new-one-'
          'starts-late',
          f'{job}: process w (timestep {old_ts}, adds 100 to a) is '
          f'replaced at t={t_r} by one with timestep {new_ts} that adds 1 '
          f'to b: (a, b) over time {got}, expected {want} (first '
          f'difference at t={bad})')


def jobs(ctx):
    out = []
    for tick in (0, 1):
        for old_ts, new_ts in ((3, 1), (4, 2), (1, 1)):
            for issuer in ('process', 'step'):
                if (tick + 1) % old_ts == 0 and issuer == 'process':
                    continue     # due in the same batch: order is moot
                out.append(('replace', tick, old_ts, new_ts, issuer))
    for tick in (0, 1, 2):
        for ts in (1, 2, 3):
            for issuer in ('step', 'process'):
                out.append(('bare', tick, ts, issuer))
    depth = BOUNDS[ctx.tier]['depth']
    # operations issued from inside the compartments (vmc.agents)
    out += [('agents',) + j for j in agents.jobs(depth, half=ctx.quick)]
    for init_i, init in enumerate(INITS):
        for issuer in ('step', 'process'):
            for kind in ('full', 'proc', 'nested', 'dproc'):
                d = depth if kind == 'full' or not ctx.quick else 1
                pair_levels = 2 if d <= 2 else 1
                if kind == 'nested' and ctx.quick:
                    # two operations (divide, then delete inside one
                    # daughter), single operations only
                    d, pair_levels = 2, 0
                hists, seen, trans = st.enumerate_histories(
                    init, kind, d, with_pairs=True,
                    pair_levels=pair_levels,
                    proc_issuer=False, gen_kind=gen_kind_of(kind),
                    with_regen=True, with_delsub=(kind == 'nested'))
                ts_pairs = ((1, 1), (3, 1)) if ctx.quick else (
                    (1, 1), (3, 1), (1, 3), (2, 1))
                for h in hists:
                    for ts_pair in ts_pairs:
                        for op_first in ((False, True)
                                         if issuer == 'process'
                                         else (False,)):
                            out.append((init_i, h, issuer, kind, ts_pair,
                                        op_first))
    return out


def run(ctx):
    return ctx.map(run_history, jobs(ctx))


def replay(case):
    acc = fw.Acc()

    def tup(x):
        return tuple(tup(y) for y in x) if isinstance(x, (list, tuple)) \
            else x
    if case.get('special') == 'replace':
        run_replace(tup(case['job']), acc)
    elif case.get('special') == 'bare-move':
        run_bare_move(tup(case['job']), acc)
    elif case.get('family') == 'agents':
        agents.judge(tup(case['job']), acc, 'C10')
    else:
        run_history((case['init'], tup(case['history']), case['issuer'],
                     case['kind'], tup(case['ts']), case['op_first']), acc)
    return [v for exs in acc.viol_examples.values() for v in exs]

RULE += (
    ' Replace family: a _generate onto a key whose compartment holds a process with an update in flight (timesteps 3 / 4, and the idle case 1) puts a new process with another wiring there: the old one contributes nothing more, the new one is invoked from that time on.')
