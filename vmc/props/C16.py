"""C16 - composites embed, merge and load the same way through every
entry point."""
import copy
import itertools

from vivarium.core.composer import Composer, Composite
from vivarium.core.engine import Engine
from vivarium.core.process import Process

from vmc import framework as fw
from vmc import probes
from vmc.probes import MonitoredEngine

ID = 'C16'
LEVEL = 'exploration'
EXHAUSTIVE = True
RULE_EXTRA = (
    ' Also: Process.generate(config, path) as a one-process composite '
    '(process / step, renamed, re-wired); MetaComposer over every ordered '
    'pair of templates (union, trajectory == merge of the composites, '
    'overlapping keys rejected); overrides a Composite carries survive '
    'later merges.')
RULE = (
    'four template composers (flat two-process; nested with ".."; steps + '
    'flow with two [] steps and a dependent; a process with a non-default '
    'initial_state()) x embedding paths {(), (a,), (a, b)} x ALL merge '
    'sequences of length <= 3 over {merge a composite, merge loose '
    'processes/topology/steps/flow/state, the same at a path, the same '
    'template twice at two paths} x the three engine entry points '
    '(composite / parts / generate_store()) x schema overrides naming each '
    '(process, port, variable). Oracle: everything under the path and the '
    're-rooted trajectory equal to the root trajectory; union model (later '
    'wins); merged-in composites and composites generated elsewhere '
    'deep-equal their earlier snapshots, then and later; entry-point '
    'trajectory equality; overrides reach exactly the named variable. '
    'Distinct by (template, path, merge sequence).')
RULE = RULE + RULE_EXTRA
ASSUMPTIONS = [
    'the three entry points are compared on the same explicit initial '
    'state S = composite.initial_state(); the variant without an explicit '
    'state is known finding K5',
]
BOUNDS = {'quick': {'merge_len': 3}, 'thorough': {'merge_len': 5}}

VAR = {'_default': 0, '_emit': True}


def pspec(pid, store, ts=1, init=None, extra_port=None):
    schema = {'port': {'x': dict(VAR), 'y': {'_default': 2, '_emit': True}}}
    update = {'port': {'x': 1}}
    spec = {'cls': 'P', 'pid': pid, 'ts': ts, 'schema': schema,
            'update': update, 'log_states': False}
    if init is not None:
        spec['init'] = {'port': {'x': init}}
    return spec


TEMPLATES = {
    'flat': {
        'processes': {'p': pspec('p', 's'), 'q': pspec('q', 's', ts=2)},
        'topology': {'p': {'port': ('s',)}, 'q': {'port': ('s2',)}},
        'steps': {}, 'flow': {}},
    'nested': {
        'processes': {'p': pspec('p', 's'),
                      'inner': {'q': pspec('q', 's')}},
        'topology': {'p': {'port': ('s',)},
                     'inner': {'q': {'port': ('..', 's')}}},
        'steps': {}, 'flow': {}},
    'steps': {
        'processes': {'p': pspec('p', 's')},
        'topology': {'p': {'port': ('s',)},
                     'w': {'port': ('s',), 'out': ('o',)},
                     'r': {'out': ('o',)},
                     'd': {'out': ('o',)}},
        'steps': {
            # w and r have no dependencies ([]): they share a layer, so r
            # reads z BEFORE w's update of this phase is applied
            'w': {'cls': 'S', 'pid': 'w', 'log_states': False,
                  'schema': {'port': {'x': dict(VAR)},
                             'out': {'z': {'_default': 0, '_updater': 'set',
                                           '_emit': True}}},
                  'update': {'out': {'z': {'$state': ('port', 'x')}}}},
            'r': {'cls': 'S', 'pid': 'r', 'log_states': False,
                  'schema': {'out': {'z': {'_default': 0, '_updater': 'set',
                                           '_emit': True},
                                     'seen': {'_default': -1,
                                              '_updater': 'set',
                                              '_emit': True}}},
                  'update': {'out': {'seen': {'$state': ('out', 'z')}}}},
            'd': {'cls': 'S', 'pid': 'd', 'log_states': False,
                  'schema': {'out': {'z': {'_default': 0, '_updater': 'set',
                                           '_emit': True},
                                     'after': {'_default': -1,
                                               '_updater': 'set',
                                               '_emit': True}}},
                  'update': {'out': {'after': {'$state': ('out', 'z')}}}}},
        'flow': {'w': [], 'r': [], 'd': [('w',)]}},
    # like 'steps', but the dependent step d is listed in the PROCESSES
    # dictionary (legal: a Step is a Process); its flow entry still holds
    'step-in-processes': None,
    'init': {
        'processes': {'p': pspec('p', 's', init=40),
                      'q': pspec('q', 's2', init=7)},
        'topology': {'p': {'port': ('s',)}, 'q': {'port': ('s2',)}},
        'steps': {}, 'flow': {}},
}


def _renamed(tree, suffix):
    return {k + suffix: v for k, v in tree.items()} if suffix else tree


def _step_in_processes():
    t = copy.deepcopy(TEMPLATES['steps'])
    t['processes']['d'] = t['steps'].pop('d')
    return t


TEMPLATES['step-in-processes'] = _step_in_processes()


class ProbeComposer(Composer):
    """config 'rename': a suffix for every top-level process / step key
    (and the flow dependencies that name them), so that two templates can
    be combined without overlapping keys."""
    defaults = {'template': 'flat', 'rename': ''}

    def generate_processes(self, config):
        return _renamed(probes.build_tree(copy.deepcopy(
            TEMPLATES[config['template']]['processes'])), config['rename'])

    def generate_steps(self, config):
        return _renamed(probes.build_tree(copy.deepcopy(
            TEMPLATES[config['template']]['steps'])), config['rename'])

    def generate_flow(self, config):
        sfx = config['rename']
        flow = copy.deepcopy(TEMPLATES[config['template']]['flow'])
        return {k + sfx: [tuple(d[:-1]) + (d[-1] + sfx,) for d in deps]
                for k, deps in flow.items()}

    def generate_topology(self, config):
        return _renamed(copy.deepcopy(
            TEMPLATES[config['template']]['topology']), config['rename'])


def render(tree):
    """Structure of a composite part with processes rendered by identity."""
    if isinstance(tree, dict):
        return {k: render(v) for k, v in tree.items()}
    if isinstance(tree, Process):
        return ('process', type(tree).__name__, id(tree))
    if isinstance(tree, (list, tuple)):
        return [render(v) for v in tree]
    return tree


def snap(comp):
    return {k: render(comp[k]) for k in
            ('processes', 'steps', 'flow', 'topology', 'state')}


def get(tree, path):
    for k in path:
        if not isinstance(tree, dict) or k not in tree:
            return None
        tree = tree[k]
    return tree


def rows_of(engine):
    out = []
    for r in engine.emitter.records:
        if r['table'] == 'history':
            d = dict(r['data'])
            t = d.pop('time')
            out.append((t, fw.jdump(d)))
    return out


def run_engine(ticks=3, **kw):
    eng = MonitoredEngine(emitter={'type': 'vmc_probe'}, display_info=False,
                          **kw)
    eng.update(ticks)
    return eng


def reroot(data_json, path):
    import json
    d = json.loads(data_json)
    return fw.jdump(get(d, path) if path else d)


# ----------------------------------------------------------------------
def check_embedding(tname, path, acc):
    """(i) generated at a path: everything under the path, and the
    trajectory there equals the root trajectory."""
    case = {'part': 'embed', 'template': tname, 'path': path}
    V = lambda rule, fp, msg: acc.violate(  # noqa
        fw.violation(rule, fp, msg, case))
    acc.case(key=('embed', tname, path), outcome='embed')
    root = ProbeComposer({'template': tname}).generate()
    emb = ProbeComposer({'template': tname}).generate(path=path)
    for part in ('processes', 'steps', 'flow', 'topology'):
        sub = get(emb[part], path)
        if render_shape(sub) != render_shape(root[part]) or (
                path and set(emb[part]) - {path[0]}):
            V('C16.embed', f'{part}-not-under-path',
              f'{part} generated at {path}: {render_shape(emb[part])}, at '
              f'the root: {render_shape(root[part])}')
            return
    try:
        e_root = run_engine(composite=root,
                            initial_state=root.initial_state())
        e_emb = run_engine(composite=emb, initial_state=emb.initial_state())
    except Exception as e:  # noqa
        V('C16.crash', f'embed:{type(e).__name__}',
          f'{tname} at {path}: {e!r}')
        return
    r1 = rows_of(e_root)
    r2 = [(t, reroot(d, path)) for t, d in rows_of(e_emb)]
    if r1 != r2:
        V('C16.embed', 'trajectory-differs-at-path',
          f'{tname} at {path}: rows {r2[:3]} vs root {r1[:3]}')


def render_shape(tree):
    if isinstance(tree, dict):
        return {k: render_shape(v) for k, v in tree.items()}
    if isinstance(tree, Process):
        return type(tree).__name__
    if isinstance(tree, (list, tuple)):
        return [render_shape(v) for v in tree]
    return tree


# merge actions: (kind, template, path)
def merge_actions():
    acts = []
    for tname in ('flat', 'steps', 'init'):
        for path in ((), ('m',), ('m', 'n')):
            acts.append(('composite', tname, path))
    for path in ((), ('m',)):
        acts.append(('loose', 'flat', path))
        acts.append(('state', None, path))
        # the same step declared again with ANOTHER dependency list: the
        # later entry wins
        acts.append(('flowvar', 'steps', path))
        # ONE call that merges a composite AND loose parts whose keys meet
        # the composite's nested dictionaries (a re-wired port, a state
        # for one of its stores)
        acts.append(('both', 'flat', path))
    return acts


def do_merge(target, action, ledger):
    """Apply one merge; returns the reference union update."""
    kind, tname, path = action
    if kind == 'composite':
        comp = ProbeComposer({'template': tname}).generate()
        comp['state'] = {'s': {'x': 5}} if tname != 'steps' else {}
        ledger.append((comp, snap(comp), copy.deepcopy(snap(comp))))
        target.merge(composite=comp, path=path)
        return comp
    if kind == 'both':
        comp = ProbeComposer({'template': tname}).generate()
        comp['state'] = {'s': {'x': 5}}
        ledger.append((comp, snap(comp), copy.deepcopy(snap(comp))))
        topo = {'p': {'port': ('elsewhere',)}}
        state = {'s': {'y': 77}}
        target.merge(composite=comp, topology=copy.deepcopy(topo),
                     state=copy.deepcopy(state), path=path)

        def over(a, b):
            out = dict(a)
            for k, v in b.items():
                out[k] = over(out[k], v) if isinstance(v, dict) and \
                    isinstance(out.get(k), dict) else v
            return out
        return Composite({
            'processes': comp['processes'], 'steps': comp['steps'],
            'flow': comp['flow'],
            'topology': over(comp['topology'], topo),
            'state': over(comp['state'], state)})
    if kind == 'flowvar':
        t = TEMPLATES[tname]
        steps = probes.build_tree(copy.deepcopy(t['steps']))
        topo = {k: copy.deepcopy(t['topology'][k]) for k in t['steps']}
        flow = {'w': [], 'r': [], 'd': [('r',)]}
        loose = Composite({'steps': steps, 'topology': topo,
                           'flow': copy.deepcopy(flow)})
        target.merge(steps=steps, topology=topo, flow=flow, path=path)
        return loose
    if kind == 'loose':
        t = TEMPLATES[tname]
        procs = probes.build_tree(copy.deepcopy(t['processes']))
        topo = copy.deepcopy(t['topology'])
        loose = Composite({'processes': procs, 'topology': topo})
        target.merge(processes=procs, topology=topo, path=path)
        return loose
    state = {'s': {'y': 9}, 'extra': {'k': 1}}
    given = copy.deepcopy(state)
    target.merge(state=state, path=path)
    if state != given:
        raise AssertionError('merge modified the state handed in')
    return Composite({'state': given})


def union(ref, comp, path):
    def put_merge(dst, src):
        for k, v in src.items():
            if isinstance(v, dict) and isinstance(dst.get(k), dict):
                put_merge(dst[k], v)
            else:
                dst[k] = v if not isinstance(v, dict) else _copy_dict(v)
    for part in ('processes', 'steps', 'flow', 'topology', 'state'):
        sub = render(comp.get(part, {}) or {})
        for k in reversed(path):
            sub = {k: sub}
        put_merge(ref[part], sub)


def _copy_dict(d):
    return {k: _copy_dict(v) if isinstance(v, dict) else v
            for k, v in d.items()}


def check_merges(seq, acc):
    case = {'part': 'merge', 'sequence': seq}
    V = lambda rule, fp, msg: acc.violate(  # noqa
        fw.violation(rule, fp, msg, case))
    acc.case(key=('merge', seq), outcome=f'merge:{len(seq)}')
    bystander_before = snap_shape(ProbeComposer(
        {'template': 'flat'}).generate())
    target = ProbeComposer({'template': 'nested'}).generate()
    ref = snap(target)
    ledger = []
    for i, action in enumerate(seq):
        try:
            merged = do_merge(target, action, ledger)
        except Exception as e:  # noqa
            V('C16.crash', f'merge:{type(e).__name__}',
              f'merge {action} raised {e!r}')
            return
        union(ref, merged, action[2])
        got = snap(target)
        if got != ref:
            part = next(p for p in got if got[p] != ref[p])
            V('C16.merge', f'target-{part}-differs-from-union',
              f'after {seq[:i + 1]}: target {part} = {got[part]}, union '
              f'model {ref[part]}')
            return
        for (comp, before, _), act in zip(ledger, seq):
            if snap(comp) != before:
                part = next(p for p in before if snap(comp)[p] != before[p])
                V('C16.merge', 'merged-in-composite-changed',
                  f'after {seq[:i + 1]}: a composite merged in earlier '
                  f'changed in {part}: {snap(comp)[part]} (was '
                  f'{before[part]})')
                return
    # a composite generated elsewhere is not affected, then and later
    bystander_after = snap_shape(ProbeComposer(
        {'template': 'flat'}).generate())
    if bystander_after != bystander_before:
        V('C16.merge', 'unrelated-composite-changed',
          f'a freshly generated composite differs after the merges: '
          f'{bystander_after} (before: {bystander_before})')
    if len(acc.samples) < 2 and len(seq) >= 2:
        acc.sample({'merge_sequence': seq,
                    'target_processes': render_shape(target['processes'])})


def snap_shape(comp):
    return {k: render_shape(comp[k]) for k in
            ('processes', 'steps', 'flow', 'topology', 'state')}


def check_entry_points(tname, path, acc, explicit_state=True):
    case = {'part': 'entry', 'template': tname, 'path': path,
            'explicit_state': explicit_state}
    V = lambda rule, fp, msg: acc.violate(  # noqa
        fw.violation(rule, fp, msg, case))
    acc.case(key=('entry', tname, path, explicit_state),
             outcome=f'entry:{explicit_state}')
    rows = {}
    try:
        for entry in ('composite', 'parts', 'store'):
            comp = ProbeComposer({'template': tname}).generate(path=path)
            S = comp.initial_state() if explicit_state else None
            if entry == 'composite':
                kw = {'composite': comp}
                if S is not None:
                    kw['initial_state'] = S
            elif entry == 'parts':
                kw = {'processes': comp['processes'],
                      'steps': comp['steps'], 'flow': comp['flow'],
                      'topology': comp['topology']}
                if S is not None:
                    kw['initial_state'] = S
            else:
                store = comp.generate_store(
                    {'initial_state': S} if S is not None else None)
                kw = {'store': store}
            eng = run_engine(**kw)
            rows[entry] = rows_of(eng)
    except Exception as e:  # noqa
        V('C16.crash', f'entry:{type(e).__name__}',
          f'{tname} at {path}: {e!r}')
        return
    for entry in ('parts', 'store'):
        if rows[entry] != rows['composite']:
            diff = next((a, b) for a, b in itertools.zip_longest(
                rows['composite'], rows[entry]) if a != b)
            fp = f'{entry}-entry-differs' if explicit_state else \
                f'{entry}-entry-differs-without-explicit-initial-state'
            V('C16.entry', fp,
              f'{tname} at {path}: entry point {entry} gives {diff[1]}, '
              f'composite gives {diff[0]}')
            return


def check_override_isolation(how, acc):
    """Two composites generated by ONE composer that carries an override
    are merged at two paths; a later override names the process of ONE of
    them: the other composite's process, and the composer's own override,
    stay as they were. Likewise two processes built from one parameters
    dictionary that holds a _schema."""
    case = {'part': 'override-isolation', 'how': how}
    acc.case(key=('override-isolation', how), outcome='override')
    try:
        if how == 'composer':
            ov = {'p': {'port': {'x': {'_default': 7}}}}
            composer = ProbeComposer({'template': 'flat', '_schema': ov})
            full = Composite()
            full.merge(composite=composer.generate(path=('agents', '1')))
            full.merge(composite=composer.generate(path=('agents', '2')))
            full.merge(schema_override={'agents': {'1': {'p': {'port': {
                'x': {'_default': 555}}}}}})
            one = full['processes']['agents']['1']['p']
            two = full['processes']['agents']['2']['p']
            kept = composer.schema_override['p']['port']['x']['_default']
        elif how == 'shared-leaf':
            # ONE leaf dictionary declares three variables of a process
            # (two in one port, one in another port); an override names
            # one of them
            leaf = {'_default': 7, '_emit': True}
            one = probes.Probe({
                'pid': 'a', 'ts': 1, 'update': {}, 'log_states': False,
                'schema': {'port': {'x': leaf, 'y': leaf},
                           'other': {'z': leaf}},
                '_schema': {'port': {'x': {'_default': 555}}}})
            sch = one.get_schema()

            class _Two:          # the twin is variable y, 'kept' is z
                @staticmethod
                def get_schema():
                    return {'port': {'x': sch['port']['y']}}
            two = _Two
            kept = sch['other']['z']['_default']
        elif how == 'template':
            # two processes hand out ONE schema object (a class-level
            # template); a composite-level override names one of them
            template = {'port': {'x': {'_default': 7, '_emit': True},
                                 'y': {'_default': 2, '_emit': True}}}
            mk = lambda pid: probes.Probe({  # noqa
                'pid': pid, 'ts': 1, 'schema': template,
                'schema_by_reference': True, 'update': {},
                'log_states': False})
            full = Composite({
                'processes': {'a': mk('a'), 'b': mk('b')},
                'topology': {'a': {'port': ('sa',)}, 'b': {'port': ('sb',)}},
                '_schema': {'a': {'port': {'x': {'_default': 555}}}}})
            one, two = full['processes']['a'], full['processes']['b']
            one.get_schema()
            kept = template['port']['x']['_default']
        else:
            params = dict(pspec('p', 's'),
                          _schema={'port': {'x': {'_default': 7}}})
            params.pop('cls')
            one = probes.Probe(params)
            two = probes.Probe(params)
            one.merge_overrides({'port': {'x': {'_default': 555}}})
            kept = params['_schema']['port']['x']['_default']
        got = (one.get_schema()['port']['x']['_default'],
               two.get_schema()['port']['x']['_default'], kept)
    except Exception as e:  # noqa
        acc.violate(fw.violation(
            'C16.crash', f'override-isolation:{type(e).__name__}',
            f'{case}: {e!r}', case))
        return
    if got != (555, 7, 7):
        acc.violate(fw.violation(
            'C16.override', 'override-leaked',
            f'{how}: an override (default 555) named ONE process; the '
            f'named process, its twin and the original override hold '
            f'{got}, expected (555, 7, 7)', case))


def check_glob_entry(path, acc):
    """A composite whose process observes a glob store; the initial state
    handed to the engine names children of that store: through every
    entry point the process is shown them from its first invocation and
    the simulation is the same."""
    case = {'part': 'glob-entry', 'path': path}
    acc.case(key=('glob-entry', path), outcome='entry')
    seen = {}
    try:
        for entry in ('composite', 'parts', 'store', 'store+state'):
            counter = probes.Probe({
                'pid': 'counter', 'ts': 1, 'log_states': False,
                'schema': {'kids': {'*': {'m': {'_default': 1,
                                                '_emit': True}}},
                           'out': {'n': {'_default': -1, '_updater': 'set',
                                         '_emit': True}}},
                'update': {'out': {'n': {'$call': 'c16count'}}}})
            comp = Composite()
            comp.merge(processes={'counter': counter},
                       topology={'counter': {'kids': ('kids',),
                                             'out': ('out',)}}, path=path)
            state = {}
            node = state
            for k in path:
                node = node.setdefault(k, {})
            node['kids'] = {'k1': {'m': 2}, 'k2': {'m': 3}}
            if entry == 'composite':
                comp.merge(state=state)
                eng = run_engine(2, composite=comp)
            elif entry == 'parts':
                eng = run_engine(2, processes=comp['processes'],
                                 steps=comp['steps'], flow=comp['flow'],
                                 topology=comp['topology'],
                                 initial_state=state)
            elif entry == 'store':
                eng = run_engine(2, store=comp.generate_store(
                    {'initial_state': state}))
            else:
                eng = run_engine(2, store=comp.generate_store(),
                                 initial_state=state)
            rows = [get(r['snapshot'], path) for r in eng.emitter.records
                    if r['table'] == 'history']
            seen[entry] = [(r['out']['n'], sorted(r.get('kids', {})))
                           for r in rows]
    except Exception as e:  # noqa
        acc.violate(fw.violation(
            'C16.crash', f'glob-entry:{type(e).__name__}',
            f'{case}: {e!r}', case))
        return
    want = [(-1, ['k1', 'k2']), (2, ['k1', 'k2']), (2, ['k1', 'k2'])]
    if any(v != want for v in seen.values()):
        acc.violate(fw.violation(
            'C16.entry', 'glob-children-of-initial-state-not-seen',
            f'composite at {path}: a process counts the children of a glob '
            f'store that the initial state names (k1, k2); rows (count, '
            f'children) per entry point {seen}, expected {want}', case))


def _c16count(tpl, env):
    return len(env.states.get('kids', {}))


probes.TEMPLATE_HOOKS['c16count'] = _c16count


def check_state_precedence(path, acc):
    """State merged into the composite for a variable that a process's
    own initial_state() sets too: the composite's state wins, through
    every entry point."""
    case = {'part': 'state-precedence', 'path': path}
    acc.case(key=('state-precedence', path), outcome='entry')
    starts = {}
    try:
        for entry in ('composite', 'parts', 'store', 'initial_state()'):
            comp = ProbeComposer({'template': 'init'}).generate(path=path)
            comp.merge(state={'s': {'x': 5}}, path=path)
            if entry == 'composite':
                eng = run_engine(1, composite=comp)
            elif entry == 'parts':
                eng = run_engine(1, processes=comp['processes'],
                                 steps=comp['steps'], flow=comp['flow'],
                                 topology=comp['topology'],
                                 initial_state=comp['state'])
            elif entry == 'store':
                eng = run_engine(1, store=comp.generate_store())
            else:
                starts[entry] = get(comp.initial_state(), path)['s']['x']
                continue
            starts[entry] = get(eng.emitter.records[1]['snapshot'],
                                path)['s']['x']
    except Exception as e:  # noqa
        acc.violate(fw.violation(
            'C16.crash', f'state-precedence:{type(e).__name__}',
            f'{case}: {e!r}', case))
        return
    if set(starts.values()) != {5}:
        acc.violate(fw.violation(
            'C16.entry', 'composite-state-loses-to-process-initial-state',
            f'composite at {path} with merged state s.x = 5 (process p '
            f'declares initial_state s.x = 40): the simulation starts '
            f'from {starts}', case))


def check_overrides(tname, acc):
    """(iv) an override changes get_schema() of exactly the named
    process, port and variable."""
    t = TEMPLATES[tname]

    def procs(tree, path=()):
        for k, v in tree.items():
            if 'cls' in v:
                yield path + (k,), v
            else:
                yield from procs(v, path + (k,))
    names = list(procs(t['processes'])) + list(procs(t['steps']))
    for (ppath, pspec_), in [(n,) for n in names]:
        for port, vars_ in pspec_['schema'].items():
            for var in vars_:
                case = {'part': 'override', 'template': tname,
                        'process': ppath, 'port': port, 'var': var}
                acc.case(key=('override', tname, ppath, port, var),
                         outcome='override')
                ov = {}
                node = ov
                for k in ppath:
                    node = node.setdefault(k, {})
                node[port] = {var: {'_default': 12345}}
                comp = ProbeComposer({'template': tname,
                                      '_schema': ov}).generate()
                both = dict(comp['processes'])
                for k, v in comp['steps'].items():
                    both[k] = v
                for (qpath, _) in names:
                    proc = get(both, qpath)
                    sch = proc.get_schema()
                    for qport, qvars in sch.items():
                        for qvar, leaf in qvars.items():
                            hit = (qpath == ppath and qport == port
                                   and qvar == var)
                            is_set = leaf.get('_default') == 12345
                            if hit != is_set:
                                acc.violate(fw.violation(
                                    'C16.override',
                                    'override-missed' if hit
                                    else 'override-leaked',
                                    f'override for {ppath}.{port}.{var}: '
                                    f'{qpath}.{qport}.{qvar} has default '
                                    f'{leaf.get("_default")}', case))
                                return


def check_multi_override(order, how, acc):
    """An override with several entries at one level - a compartment
    entry and a process entry, in either order - reaches all of them."""
    case = {'part': 'multi-override', 'order': order, 'how': how}
    acc.case(key=('multi-override', order, how), outcome='override')
    entries = {
        'inner': {'q': {'port': {'x': {'_default': 111}}}},
        'p': {'port': {'x': {'_default': 222}}, 'extra': {}},
    }
    ov = {k: copy.deepcopy(entries[k]) for k in order}
    ov['p'].pop('extra')
    try:
        if how == 'composer':
            comp = ProbeComposer({'template': 'nested',
                                  '_schema': ov}).generate()
        elif how == 'composite':
            t = TEMPLATES['nested']
            comp = Composite({
                'processes': probes.build_tree(
                    copy.deepcopy(t['processes'])),
                'topology': copy.deepcopy(t['topology']), '_schema': ov})
        else:
            comp = ProbeComposer({'template': 'nested'}).generate()
            comp.merge(schema_override=ov)
        got_q = comp['processes']['inner']['q'].get_schema()[
            'port']['x'].get('_default')
        got_p = comp['processes']['p'].get_schema()[
            'port']['x'].get('_default')
    except Exception as e:  # noqa
        acc.violate(fw.violation(
            'C16.crash', f'multi-override:{type(e).__name__}',
            f'{case}: {e!r}', case))
        return
    if (got_q, got_p) != (111, 222):
        acc.violate(fw.violation(
            'C16.override', 'override-entry-dropped',
            f'override with entries {list(order)} given through {how}: '
            f'inner/q default {got_q} (111), p default {got_p} (222)',
            case))


def check_composer_reuse(order, acc):
    """One Composer that carries a _schema override generates several
    composites (with and without a config, with initial_state() /
    get_parameters() calls in between): the override reaches the named
    process in every one of them."""
    case = {'part': 'composer-reuse', 'order': order}
    acc.case(key=('composer-reuse', order), outcome='override')
    ov = {'p': {'port': {'x': {'_default': 12345}}}}
    try:
        composer = ProbeComposer({'template': 'flat', '_schema': ov})
        got = []
        for call in order:
            if call == 'plain':
                comp = composer.generate()
            elif call == 'config':
                comp = composer.generate({'rename': ''})
            elif call == 'path':
                comp = composer.generate(path=('a',))
                comp = {'processes': comp['processes']['a']}
            elif call == 'initial_state':
                composer.initial_state()
                continue
            else:
                composer.get_parameters()
                continue
            got.append(comp['processes']['p'].get_schema()['port']['x'].get(
                '_default'))
    except Exception as e:  # noqa
        acc.violate(fw.violation(
            'C16.crash', f'composer-reuse:{type(e).__name__}',
            f'{case}: {e!r}', case))
        return
    if any(g != 12345 for g in got):
        acc.violate(fw.violation(
            'C16.override', 'composer-override-not-in-every-composite',
            f'one composer, calls {list(order)}: the overridden default of '
            f'p.port.x in the generated composites is {got} (12345 '
            f'expected in all)', case))


def check_late_override(tname, acc):
    """An override merged AFTER the composite was loaded once still
    reaches the store and the engine built afterwards."""
    t = TEMPLATES[tname]
    case = {'part': 'late-override', 'template': tname}
    acc.case(key=('late-override', tname), outcome='override')
    comp = ProbeComposer({'template': tname}).generate()
    try:
        comp.generate_store()            # first load
        comp.merge(schema_override={'p': {'port': {'x': {
            '_default': 777}}}})
        store = comp.generate_store()
        got = store.get_value()['s']['x']
        eng = run_engine(1, composite=comp)
        first = eng.emitter.records[1]['snapshot']['s']['x']
    except Exception as e:  # noqa
        acc.violate(fw.violation(
            'C16.crash', f'late-override:{type(e).__name__}',
            f'{tname}: {e!r}', case))
        return
    if got != 777 or first != 777:
        acc.violate(fw.violation(
            'C16.override', 'late-override-does-not-reach-the-store',
            f'{tname}: after merge(schema_override) the store built from '
            f'the composite holds x={got}, the engine starts with x={first} '
            f'(override default 777)', case))


def check_override_survives(how, later, acc):
    """An override the composite carries for key p - from its _schema
    config or from an earlier merge(schema_override=...) - names the
    process AT that key: it still applies after a later merge has replaced
    the process object there (and after unrelated merges)."""
    case = {'part': 'override-survives', 'how': how, 'later': later}
    acc.case(key=('override-survives', how, later), outcome='override')
    ov = {'p': {'port': {'x': {'_default': 4321}}}}
    try:
        if how == 'config':
            # the Composite's own configuration (a Composer applies its
            # _schema once, at generation, and hands nothing on)
            t = TEMPLATES['flat']
            comp = Composite({
                'processes': probes.build_tree(
                    copy.deepcopy(t['processes'])),
                'topology': copy.deepcopy(t['topology']),
                '_schema': copy.deepcopy(ov)})
        else:
            comp = ProbeComposer({'template': 'flat'}).generate()
            comp.merge(schema_override=copy.deepcopy(ov))
        if later == 'replace':
            comp.merge(processes={'p': probes.build_tree(
                {'p': pspec('p', 's')})['p']},
                topology={'p': {'port': ('s',)}})
        elif later == 'unrelated':
            comp.merge(processes={'extra': probes.build_tree(
                {'extra': pspec('extra', 's3')})['extra']},
                topology={'extra': {'port': ('s3',)}})
        elif later == 'other-override':
            comp.merge(schema_override={'q': {'port': {'y': {
                '_default': 99}}}})
        got = comp['processes']['p'].get_schema()['port']['x'].get(
            '_default')
        store = comp.generate_store()
        held = store.get_value()['s']['x']
        eng = run_engine(1, composite=comp)
        first = eng.emitter.records[0]['snapshot']['s']['x']
    except Exception as e:  # noqa
        acc.violate(fw.violation(
            'C16.crash', f'override-survives:{type(e).__name__}',
            f'{how}/{later}: {e!r}', case))
        return
    if (got, held, first) != (4321, 4321, 4321):
        acc.violate(fw.violation(
            'C16.override', 'recorded-override-lost-after-later-merge',
            f'override for p.port.x given through {how}, then a merge '
            f'({later}): schema default {got}, store holds {held}, the '
            f'engine starts with {first} (override default 4321)', case))


def check_meta(t1, t2, path, acc):
    """MetaComposer: the composite of a collection of composers is the
    union of their composites (under the path) and runs like the merge of
    the individual composites; overlapping keys are rejected."""
    from vivarium.core.composer import MetaComposer
    case = {'part': 'meta', 't1': t1, 't2': t2, 'path': path}
    acc.case(key=('meta', t1, t2, path), outcome='meta')
    V = lambda rule, fp, msg: acc.violate(  # noqa
        fw.violation(rule, fp, msg, case))

    def mk():
        return (ProbeComposer({'template': t1}),
                ProbeComposer({'template': t2, 'rename': '_b'}))
    try:
        a, b = mk()
        mc = MetaComposer([a])
        mc.add_composer(b)
        comp = mc.generate(path=path)
        a2, b2 = mk()
        ref = a2.generate(path=path)
        ref.merge(composite=b2.generate(path=path))
    except Exception as e:  # noqa
        V('C16.crash', f'meta:{type(e).__name__}', f'{case}: {e!r}')
        return
    for part in ('processes', 'steps', 'flow', 'topology'):
        if render_shape(comp[part]) != render_shape(ref[part]):
            V('C16.merge', f'meta-{part}-differs-from-union',
              f'MetaComposer([{t1}, {t2}_b]) at {path}: {part} = '
              f'{render_shape(comp[part])}, the merged composites hold '
              f'{render_shape(ref[part])}')
            return
    try:
        e1 = run_engine(composite=comp, initial_state=comp.initial_state())
        e2 = run_engine(composite=ref, initial_state=ref.initial_state())
    except Exception as e:  # noqa
        V('C16.crash', f'meta-run:{type(e).__name__}', f'{case}: {e!r}')
        return
    if rows_of(e1) != rows_of(e2):
        V('C16.merge', 'meta-trajectory-differs-from-merge',
          f'MetaComposer([{t1}, {t2}_b]) at {path}: rows '
          f'{rows_of(e1)[:2]} vs merged composites {rows_of(e2)[:2]}')
        return
    # overlapping keys (both templates name a process p) are rejected
    try:
        MetaComposer([ProbeComposer({'template': t1}),
                      ProbeComposer({'template': t2})]).generate(path=path)
    except ValueError:
        return
    except Exception as e:  # noqa
        V('C16.merge', f'meta-overlap-raises-{type(e).__name__}',
          f'overlapping keys raised {e!r}, expected ValueError')
        return
    V('C16.merge', 'meta-overlap-accepted',
      f'MetaComposer([{t1}, {t2}]) with overlapping key p did not raise')


def check_process_generate(path, as_step, renamed, acc):
    """A single process is a composite too: Process.generate(config,
    path) holds the process under its name below ``path``, wired port by
    port to stores of the ports' names (or as the config's topology says),
    and an engine built from those parts runs it there."""
    case = {'part': 'process-generate', 'path': path, 'as_step': as_step,
            'renamed': renamed}
    acc.case(key=('process-generate', path, as_step, renamed),
             outcome='process-generate')
    spec = pspec('solo', 's')
    spec['schema']['other'] = {'z': {'_default': 3, '_emit': True}}
    spec['update'] = {'port': {'x': 1}, 'other': {'z': 2}}
    if as_step:
        spec['cls'] = 'S'
    proc = probes.build_tree({'solo': spec})['solo']
    config = {'name': 'renamed', 'topology': {'other': ('far', 'away')}} \
        if renamed else None
    name = 'renamed' if renamed else proc.name
    try:
        g = proc.generate(config, path=path)
        # a ticker makes one batch (hence one step phase) per tick
        ticker = probes.build_tree({'t': {
            'cls': 'P', 'pid': 'ticker', 'ts': 1, 'log_states': False,
            'schema': {'tk': {'n': dict(VAR)}},
            'update': {'tk': {'n': 1}}}})['t']
        eng = run_engine(2, processes=dict(g['processes'], ticker=ticker),
                         steps=g['steps'], flow=g['flow'],
                         topology=dict(g['topology'],
                                       ticker={'tk': ('tks',)}))
        tree = probes.pure(eng.state.get_value())
    except Exception as e:  # noqa
        acc.violate(fw.violation(
            'C16.crash', f'process-generate:{type(e).__name__}',
            f'{case}: {e!r}', case))
        return
    own = 'steps' if as_step else 'processes'
    other = 'processes' if as_step else 'steps'
    want_topo = {'port': ('port',),
                 'other': ('far', 'away') if renamed else ('other',)}
    ok = (get(g[own], path) == {name: proc}
          and not get(g[other], path)
          and get(g['topology'], path) == {name: want_topo}
          and not get(g['flow'], path))
    if not ok:
        acc.violate(fw.violation(
            'C16.embed', 'process-generate-parts-wrong',
            f'Process.generate(path={path}, config={config}) gave '
            f'{render(g)}', case))
        return
    here = get(tree, path)
    ran = 3 if as_step else 2     # steps also run at construction
    z_at = here.get('far', {}).get('away', {}) if renamed else \
        here.get('other', {})
    if here.get('port', {}).get('x') != ran or \
            z_at.get('z') != 3 + 2 * ran:
        acc.violate(fw.violation(
            'C16.embed', 'process-generate-runs-elsewhere',
            f'engine from Process.generate(path={path}, config={config}) '
            f'holds {tree} after 2 ticks', case))


def run_job(job, acc):
    kind = job[0]
    if kind == 'process-generate':
        check_process_generate(job[1], job[2], job[3], acc)
        return
    if kind == 'meta':
        check_meta(job[1], job[2], job[3], acc)
        return
    if kind == 'multi-override':
        check_multi_override(job[1], job[2], acc)
        return
    if kind == 'composer-reuse':
        check_composer_reuse(job[1], acc)
        return
    if kind == 'state-precedence':
        check_state_precedence(job[1], acc)
        return
    if kind == 'override-isolation':
        check_override_isolation(job[1], acc)
        return
    if kind == 'glob-entry':
        check_glob_entry(job[1], acc)
        return
    if kind == 'override-survives':
        check_override_survives(job[1], job[2], acc)
        return
    if kind == 'late-override':
        check_late_override(job[1], acc)
        return
    if kind == 'embed':
        check_embedding(job[1], job[2], acc)
    elif kind == 'merge':
        check_merges(job[1], acc)
    elif kind == 'entry':
        check_entry_points(job[1], job[2], acc, job[3])
    else:
        check_overrides(job[1], acc)


def jobs(ctx):
    out = []
    paths = [(), ('a',), ('a', 'b')]
    for tname in TEMPLATES:
        for path in paths:
            out.append(('embed', tname, path))
            out.append(('entry', tname, path, True))
            out.append(('entry', tname, path, False))
        out.append(('override', tname))
        if tname == 'flat':
            # (only template in which p alone declares s/x: a variable
            # shared by several declarers takes the last declared default)
            out.append(('late-override', tname))
    for t1, t2 in itertools.permutations(TEMPLATES, 2):
        for path in paths:
            out.append(('meta', t1, t2, path))
    for path in paths:
        for as_step in (False, True):
            for renamed in (False, True):
                out.append(('process-generate', path, as_step, renamed))
    for path in paths:
        out.append(('state-precedence', path))
    out += [('override-isolation', 'composer'),
            ('override-isolation', 'parameters'),
            ('override-isolation', 'template'),
            ('override-isolation', 'shared-leaf')]
    out += [('glob-entry', path) for path in paths]
    calls = ('plain', 'config', 'path', 'initial_state', 'parameters')
    for order in itertools.permutations(calls, 3):
        if order[-1] in ('initial_state', 'parameters'):
            continue
        out.append(('composer-reuse', order + ('plain', 'config')))
    for order in (('inner', 'p'), ('p', 'inner')):
        for how in ('composer', 'composite', 'merge'):
            out.append(('multi-override', order, how))
    for how in ('config', 'merge'):
        for later in ('none', 'replace', 'unrelated', 'other-override'):
            out.append(('override-survives', how, later))
    acts = merge_actions()
    for n in range(1, BOUNDS[ctx.tier]['merge_len'] + 1):
        for seq in itertools.product(acts, repeat=n):
            out.append(('merge', tuple(seq)))
    return out


def run(ctx):
    return ctx.map(run_job, jobs(ctx))


def replay(case):
    acc = fw.Acc()

    def tup(x):
        return tuple(tup(y) for y in x) if isinstance(x, (list, tuple)) \
            else x
    if case['part'] == 'embed':
        check_embedding(case['template'], tup(case['path']), acc)
    elif case['part'] == 'merge':
        check_merges(tup(case['sequence']), acc)
    elif case['part'] == 'late-override':
        check_late_override(case['template'], acc)
    elif case['part'] == 'glob-entry':
        check_glob_entry(tuple(case['path']), acc)
    elif case['part'] == 'override-isolation':
        check_override_isolation(case['how'], acc)
    elif case['part'] == 'state-precedence':
        check_state_precedence(tup(case['path']), acc)
    elif case['part'] == 'composer-reuse':
        check_composer_reuse(tup(case['order']), acc)
    elif case['part'] == 'multi-override':
        check_multi_override(tup(case['order']), case['how'], acc)
    elif case['part'] == 'meta':
        check_meta(case['t1'], case['t2'], tup(case['path']), acc)
    elif case['part'] == 'process-generate':
        check_process_generate(tup(case['path']), case['as_step'],
                               case['renamed'], acc)
    elif case['part'] == 'override-survives':
        check_override_survives(case['how'], case['later'], acc)
    elif case['part'] == 'entry':
        check_entry_points(case['template'], tup(case['path']), acc,
                           case['explicit_state'])
    else:
        check_overrides(case['template'], acc)
    return [v for exs in acc.viol_examples.values() for v in exs]


RULE += (
    ' Overrides with several entries at one level (compartment entry first or last) through Composer config, Composite config and merge.')

RULE += (
    " Template step-in-processes (a Step object listed under processes: it must run as a step through every entry point). State precedence: a state merged into the composite wins over the process's own initial_state() through every entry point. Composer reuse: one Composer generating twice gives independent composites. Override isolation: an override naming ONE of two processes generated from one Composer (or built from one parameters dictionary) reaches only that process.")

RULE += (
    ' Override isolation also for two processes that hand out ONE schema object (a composite-level override names one of them; the template object itself stays as it was), and for three variables of one process declared with ONE leaf dictionary (an override names one of them). Glob entry: a process counts the children of a glob store that the initial state names - composite, parts, store built with the state, and store + initial_state show them from the first invocation on.')

RULE += (
    ' Merge action both: ONE merge call hands over a composite together with loose topology and state whose keys meet the composite\'s nested dictionaries - the union holds the loose entries, the merged-in composite stays as it was.')
