"""C15 - every declared variable is built with its explicit or default
initial value; conflicting declarations raise."""
import copy
import itertools

import numpy as np

from vivarium.core.composer import Composite
from vivarium.core.engine import Engine
from vivarium.core.store import generate_state
from vivarium.library.units import units

from vmc import framework as fw
from vmc import probes, shapes
from vmc.ref import resolve as rr
from vmc.props.C12 import VMC_SER, VmcSerializer

from vivarium.core.registry import serializer_registry
probes._register(serializer_registry, 'vmc_ser', VMC_SER)
probes._register(serializer_registry, 'vmc_ser2', VmcSerializer())

ID = 'C15'
LEVEL = 'exploration'
EXHAUSTIVE = True
RULE = (
    '1-3 probe processes, each with one port from the reduced topology '
    'grammar (plain/".."/_path-renamed/split/nested/glob), wired so that '
    'they share variables; defaults declared by every sharer or by only '
    'one; EVERY subset of the resolved nodes (<= 2^6) given an explicit '
    'initial value; glob children named in the initial state; conflict '
    'cases (differing _value, _units, _serializer on one node) must raise '
    'at construction; processes with a non-trivial initial_state() for '
    'Composite.initial_state()/default_state(). Built through Engine(...) '
    'and generate_state(...). Oracle: explicit-else-default at the nodes '
    'named by the reference resolver. Distinct by (ports, placement, '
    'default mode, explicit subset).')
ASSUMPTIONS = [
    'sharers declare equal defaults (differing defaults are merged '
    'silently by design and are not compared)',
]
BOUNDS = {'quick': {'processes': 2, 'max_nodes': 6},
          'thorough': {'processes': 4, 'max_nodes': 6}}


def put(tree, path, value):
    for k in path[:-1]:
        tree = tree.setdefault(k, {})
    tree[path[-1]] = value


def get(tree, path):
    for k in path:
        if not isinstance(tree, dict) or k not in tree:
            return ('MISSING',)
        tree = tree[k]
    return tree


def options():
    kinds = shapes.port_kinds(reduced=True)
    return [(k, ti) for k, mk, topos in kinds for ti in range(len(topos))]


def set_defaults(schema, mapping, prefix, default_of, declare):
    """Write the default of every variable (by resolved node) into the
    schema; ``declare`` False leaves the variable without a default."""
    def walk(node, path):
        for k, v in list(node.items()):
            if k.startswith('_'):
                continue
            if k == '*':
                # glob sub-schema: defaults by variable name
                def deep(sub, sp):
                    if rr.is_variable(sub):
                        sub['_default'] = 7 + len(sp)
                    else:
                        for kk, vv in sub.items():
                            if not kk.startswith('_'):
                                deep(vv, sp + (kk,))
                deep(v, ())
                continue
            if rr.is_variable(v):
                n = mapping.get(path + (k,))
                if declare:
                    v['_default'] = default_of[n]
                else:
                    v.pop('_default', None)
                    v['_updater'] = 'accumulate'
            else:
                walk(v, path + (k,))
    walk(schema, ())


def build_case(combo, place, default_mode):
    """combo: tuple of (kind, topology index) - one process per entry."""
    kinds = {k: (mk, topos) for k, mk, topos in
             shapes.port_kinds(reduced=True)}
    procs = []
    children = {}
    for i, (kind, ti) in enumerate(combo):
        mk, topos = kinds[kind]
        if len(place) < topos[ti][1]:
            return None
        schema = {'port': mk()}
        topology = {'port': topos[ti][0]}
        ch = {}
        rr._globs(schema, topology, place, _Everything(), ch)
        for store in ch:
            children[store] = list(shapes.GLOB_CHILDREN)
        procs.append((f'proc{i}', schema, topology))
    mappings = []
    for name, schema, topology in procs:
        m = rr.resolve(schema, topology, place, children)
        if any(n is None for n in m.values()):
            return None
        mappings.append(m)
    nodes = sorted({n for m in mappings for n in m.values()})
    for a in nodes:
        for b in nodes:
            if a != b and b[:len(a)] == a:
                return None
    for name, _, _ in procs:
        pp = place + (name,)
        if any(n[:len(pp)] == pp or pp[:len(n)] == n for n in nodes):
            return None
    glob_nodes = {n for n in nodes
                  if any(n[:len(s)] == s for s in children)}
    plain_nodes = [n for n in nodes if n not in glob_nodes]
    default_of = {n: 10 + i for i, n in enumerate(nodes)}
    seen = set()
    for (name, schema, topology), m in zip(procs, mappings):
        # default declared by every sharer, or only by the first sharer
        if default_mode == 'all':
            set_defaults(schema, m, (), default_of, True)
        else:
            first_time = {n for n in m.values() if n not in seen}

            def walk(node, path):
                for k, v in node.items():
                    if k.startswith('_') or k == '*':
                        continue
                    if rr.is_variable(v):
                        n = m[path + (k,)]
                        if n in first_time:
                            v['_default'] = default_of[n]
                        else:
                            v.pop('_default', None)
                            v['_updater'] = 'accumulate'
                    else:
                        walk(v, path + (k,))
            walk(schema, ())
            set_glob_defaults(schema)
            seen |= set(m.values())
    if default_mode == 'all':
        for _, schema, _ in procs:
            set_glob_defaults(schema)
    return procs, mappings, plain_nodes, sorted(glob_nodes), default_of, \
        children


def set_glob_defaults(schema):
    def walk(node):
        for k, v in node.items():
            if k == '*':
                def deep(sub, sp):
                    if rr.is_variable(sub):
                        sub['_default'] = 7 + len(sp) + sum(map(ord, ''.join(
                            sp)))
                    else:
                        for kk, vv in sub.items():
                            if not kk.startswith('_'):
                                deep(vv, sp + (kk,))
                deep(v, ())
            elif isinstance(v, dict) and not k.startswith('_') and \
                    not rr.is_variable(v):
                walk(v)
    walk(schema)


def glob_default(schema_leaf_path):
    return 7 + len(schema_leaf_path) + sum(map(ord, ''.join(
        schema_leaf_path)))


class _Everything(dict):
    def __contains__(self, k):
        return True

    def __getitem__(self, k):
        return self

    def items(self):
        return []


def construct(procs, place, state, route, share=False):
    processes, topology = {}, {}
    for name, schema, topo in procs:
        put(processes, place + (name,), probes.Probe(
            {'pid': name,
             'schema': schema if share else copy.deepcopy(schema),
             'log_states': False}))
        put(topology, place + (name,), copy.deepcopy(topo))
    if route == 'engine':
        eng = Engine(processes=processes, topology=topology,
                     initial_state=copy.deepcopy(state),
                     emitter={'type': 'null'}, display_info=False)
        return probes.pure(eng.state.get_value())
    store = generate_state(processes, topology, copy.deepcopy(state))
    return probes.pure(store.get_value())


def check_combo(job, acc):
    combo, place, default_mode = job
    built = build_case(combo, place, default_mode)
    if built is None:
        acc.counters['ill_formed_skipped'] += 1
        return
    procs, mappings, plain_nodes, glob_nodes, default_of, children = built
    if len(plain_nodes) > 6:
        plain_nodes_sub = plain_nodes[:6]
    else:
        plain_nodes_sub = plain_nodes
    label = {'combo': combo, 'place': place, 'defaults': default_mode}
    # glob stores: which children are named in the initial state
    glob_opts = [()]
    if children:
        glob_opts = [(), ('k1',), ('k1', 'k2')]
    for k in range(len(plain_nodes_sub) + 1):
        for subset in itertools.combinations(plain_nodes_sub, k):
            for named in glob_opts:
                state = {}
                for n in subset:
                    put(state, n, 500 + plain_nodes.index(n))
                for store in children:
                    leafkids = () in glob_vars(procs, store, place)
                    for child in named:
                        # branch children are named with an empty state
                        # (all sub-variables defaulted); leaf children
                        # need a value
                        put(state, store + (child,),
                            33 if leafkids else {})
                for route in ('engine', 'store', 'engine+undeclared'):
                    case = dict(label, explicit=list(subset),
                                children=list(named), route=route)
                    acc.case(key=(combo, place, default_mode, subset, named,
                                  route),
                             outcome=f'{len(combo)}proc:{route}',
                             nontrivial=True)
                    try:
                        if route == 'engine+undeclared':
                            # the initial state comes from a larger model:
                            # every dictionary STARTS with a key nobody
                            # declares (ignored; the declared keys after
                            # it still count)
                            tree = construct(
                                procs, place,
                                with_undeclared(state, set(children)),
                                'engine')
                        else:
                            tree = construct(procs, place, state, route)
                    except Exception as e:  # noqa
                        acc.violate(fw.violation(
                            'C15.crash', f'{type(e).__name__}',
                            f'construction raised {e!r} for {case}', case))
                        return
                    bad = None
                    for n in plain_nodes:
                        want = 500 + plain_nodes.index(n) if n in subset \
                            else default_of[n]
                        got = get(tree, n)
                        if got != want:
                            bad = (n, got, want,
                                   'explicit' if n in subset else 'default')
                            break
                    if bad:
                        acc.violate(fw.violation(
                            'C15.value', f'{bad[3]}-value-not-in-place',
                            f'node {bad[0]} holds {bad[1]!r}, expected '
                            f'{bad[3]} value {bad[2]!r}; procs '
                            f'{[(n, s, t) for n, s, t in procs]}', case))
                        return
                    # named glob children exist with all sub-variables
                    for store in children:
                        kids = get(tree, store)
                        kids = kids if isinstance(kids, dict) else {}
                        if sorted(k for k in kids) != sorted(named):
                            acc.violate(fw.violation(
                                'C15.glob', 'children-differ-from-initial-'
                                'state',
                                f'glob store {store} holds {sorted(kids)}, '
                                f'initial state names {list(named)}', case))
                            return
                        for child in named:
                            for m in mappings:
                                pass
                        want_vars = glob_vars(procs, store, place)
                        for child in named:
                            for vp, dflt in want_vars.items():
                                got = get(kids.get(child, {}), vp) if vp \
                                    else kids.get(child)
                                if not vp:
                                    dflt = 33
                                if got != dflt:
                                    acc.violate(fw.violation(
                                        'C15.glob',
                                        'child-lacks-declared-default',
                                        f'{store + (child,) + vp} = {got!r},'
                                        f' declared default {dflt!r}', case))
                                    return
    if len(acc.samples) < 3 and len(combo) == 2 and len(plain_nodes) >= 3:
        acc.sample({'processes': [(n, s, t) for n, s, t in procs],
                    'place': place, 'defaults': default_mode,
                    'nodes': plain_nodes})


def with_undeclared(state, glob_stores, path=()):
    out = {}
    if path not in glob_stores:
        out['aa_undeclared'] = {'deep': {'x': 1}}
    for k, v in state.items():
        out[k] = with_undeclared(v, glob_stores, path + (k,)) \
            if isinstance(v, dict) and v else v
    return out


def glob_vars(procs, store, place):
    """{sub-variable path: default} declared for children of a glob store."""
    out = {}
    for name, schema, topo in procs:
        ch = {}
        rr._globs(schema, topo, place, _Everything(), ch)
        if store not in ch:
            continue

        def find(node):
            for k, v in node.items():
                if k == '*':
                    def deep(sub, sp):
                        if rr.is_variable(sub):
                            out[sp] = sub['_default']
                        else:
                            for kk, vv in sub.items():
                                if not kk.startswith('_'):
                                    deep(vv, sp + (kk,))
                    deep(v, ())
                elif isinstance(v, dict) and not k.startswith('_') and \
                        not rr.is_variable(v):
                    find(v)
        find(schema)
    return out


def conflict_cases(acc):
    """Incompatible declarations for one node must raise ValueError."""
    base = {'_default': 1.0, '_emit': True}
    confl = [
        ('value', {'_value': 1.0}, {'_value': 2.0}, True),
        ('value-equal', {'_value': 1.0}, {'_value': 1.0}, False),
        ('units', {'_default': 1.0 * units.fg, '_units': units.fg},
         {'_default': 1.0 * units.fg, '_units': units.um}, True),
        ('units-scale', {'_default': 1.0 * units.mm, '_units': units.mm},
         {'_default': 1.0 * units.mm, '_units': units.m}, True),
        ('units-equal', {'_default': 1.0 * units.fg, '_units': units.fg},
         {'_default': 1.0 * units.fg, '_units': units.fg}, False),
        ('serializer', {'_serializer': 'vmc_ser'},
         {'_serializer': 'vmc_ser2'}, True),
        ('serializer-equal', {'_serializer': 'vmc_ser'},
         {'_serializer': 'vmc_ser'}, False),
        ('updater-only-second', {}, {'_updater': 'set'}, False),
        # dictionary- and array-valued declarations are compared by value
        ('value-dict', {'_value': {'a': {'b': 1}}, '_updater': 'set'},
         {'_value': {'a': {'b': 2}}, '_updater': 'set'}, True),
        ('value-dict-keys', {'_value': {'a': {'b': 1}}, '_updater': 'set'},
         {'_value': {'a': {'b': 1, 'c': 1}}, '_updater': 'set'}, True),
        ('value-dict-equal', {'_value': {'a': {'b': 1}}, '_updater': 'set'},
         {'_value': {'a': {'b': 1}}, '_updater': 'set'}, False),
        ('value-array', {'_value': np.array([1, 2]), '_updater': 'set'},
         {'_value': np.array([1, 3]), '_updater': 'set'}, True),
        ('value-array-equal', {'_value': np.array([1, 2]),
                               '_updater': 'set'},
         {'_value': np.array([1, 2]), '_updater': 'set'}, False),
        # arrays of different (broadcastable) shape, and arrays / numbers
        # that differ a little, are different declarations
        ('value-array-shape', {'_value': np.array([2.0, 2.0, 2.0]),
                               '_updater': 'set'},
         {'_value': np.array([2.0]), '_updater': 'set'}, True),
        ('value-array-close', {'_value': np.array([1.0, 2.0]),
                               '_updater': 'set'},
         {'_value': np.array([1.0, 2.00001]), '_updater': 'set'}, True),
        ('value-float-close', {'_value': 1.0}, {'_value': 1.0 + 1e-9},
         True),
    ]
    for (label, a, b, must_raise) in confl:
        for topo_b in (('s',), {'_path': ('t',), 'v': ('..', 's', 'v')}):
            for order in (0, 1):
                sa = {'port': {'v': dict(base, **a)}}
                sb = {'port': {'v': dict(base, **b)}}
                if '_default' in a:
                    sa = {'port': {'v': dict(a, _emit=True)}}
                    sb = {'port': {'v': dict(b, _emit=True)}}
                ps = [('procA', sa, {'port': ('s',)}),
                      ('procB', sb, {'port': topo_b})]
                if order:
                    ps = ps[::-1]
                case = {'conflict': label, 'topo_b': topo_b, 'order': order}
                acc.case(key=('conflict', label, str(topo_b), order),
                         outcome='conflict')
                try:
                    construct(ps, (), {}, 'engine', share=True)
                    raised = None
                except ValueError as e:
                    raised = e
                except Exception as e:  # noqa
                    raised = e
                if must_raise and raised is None:
                    acc.violate(fw.violation(
                        'C15.conflict', f'{label}-conflict-not-rejected',
                        f'two processes declare incompatible {label} for '
                        f'one node and construction succeeded', case))
                if must_raise and raised is not None and not isinstance(
                        raised, ValueError):
                    acc.violate(fw.violation(
                        'C15.conflict', f'{label}-conflict-wrong-error',
                        f'raised {raised!r} instead of ValueError', case))
                if not must_raise and raised is not None:
                    acc.violate(fw.violation(
                        'C15.conflict', f'{label}-compatible-rejected',
                        f'compatible declarations raised {raised!r}', case))


def composite_state_cases(acc):
    """Composite.initial_state()/default_state() place each process's own
    values at the nodes its ports are wired to."""
    opts = options()
    kinds = {k: (mk, topos) for k, mk, topos in
             shapes.port_kinds(reduced=True)}
    for (ka, ta), (kb, tb) in itertools.product(opts, repeat=2):
        if 'glob' in ka or 'glob' in kb:
            continue
        for place, byref in itertools.product(((), ('c',)), (False, True)):
            if len(place) < max(kinds[ka][1][ta][1], kinds[kb][1][tb][1]):
                continue
            ps = [('procA', {'port': kinds[ka][0]()},
                   {'port': kinds[ka][1][ta][0]}),
                  ('procB', {'port': kinds[kb][0]()},
                   {'port': kinds[kb][1][tb][0]})]
            maps = [rr.resolve(s, t, place) for _, s, t in ps]
            nodes = sorted({n for m in maps for n in m.values()})
            if any(n is None for n in nodes) or any(
                    a != b and b[:len(a)] == a for a in nodes
                    for b in nodes):
                continue
            case = {'composite_state': [(ka, ta), (kb, tb)], 'place': place,
                    'init_by_reference': byref}
            acc.case(key=('composite', ka, ta, kb, tb, place, byref),
                     outcome='composite-state')
            processes, topology = {}, {}
            kept = []
            want_init, want_def = {}, {}
            for i, ((name, schema, topo), m) in enumerate(zip(ps, maps)):
                init = {}
                for j, (vp, n) in enumerate(sorted(m.items())):
                    put(init, vp, 900 + 10 * i + j)
                    put(want_init, n, 900 + 10 * i + j)
                    sch = schema
                    for k in vp:
                        sch = sch[k]
                    sch['_default'] = 40 + nodes.index(n)
                    put(want_def, n, 40 + nodes.index(n))
                put(processes, place + (name,), probes.Probe(
                    {'pid': name, 'schema': schema, 'init': init,
                     'init_by_reference': byref, 'log_states': False}))
                kept.append((name, init, copy.deepcopy(init)))
                put(topology, place + (name,), topo)
            comp = Composite({'processes': processes, 'topology': topology})
            try:
                got_init = comp.initial_state()
                got_def = comp.default_state()
            except Exception as e:  # noqa
                acc.violate(fw.violation(
                    'C15.composite', f'raises-{type(e).__name__}',
                    f'initial_state()/default_state() raised {e!r}', case))
                continue
            # later processes win on shared nodes: accept any sharer's value
            ok_init = all(
                get(got_init, n) in [get(_mapped(ps, maps, i, 'init'), n)
                                     for i in range(2)]
                for n in nodes)
            if not ok_init or set(_leaves(got_init)) != set(nodes):
                acc.violate(fw.violation(
                    'C15.composite', 'initial_state-misplaced',
                    f'Composite.initial_state() = {got_init}, expected the '
                    f'processes\' initial values at {nodes}', case))
            # an explicit initial state passed to one call must not leak
            # into later calls on the same Composite
            try:
                first = nodes[0]
                override = {}
                put(override, first, -77)
                with_cfg = comp.initial_state({'initial_state': override})
                again = comp.initial_state()
                store = comp.generate_store()
            except Exception as e:  # noqa
                acc.violate(fw.violation(
                    'C15.composite', f'raises-{type(e).__name__}',
                    f'initial_state(config) sequence raised {e!r}', case))
                continue
            if get(with_cfg, first) != -77:
                acc.violate(fw.violation(
                    'C15.composite', 'explicit-initial-state-ignored',
                    f'initial_state(config) = {with_cfg}, the explicit '
                    f'value for {first} is missing', case))
            if again != got_init:
                acc.violate(fw.violation(
                    'C15.composite', 'initial-state-leaks-between-calls',
                    f'initial_state() returned {again} after a call with '
                    f'an explicit initial state; before it was {got_init}',
                    case))
            if get(probes.pure(store.get_value()), first) != get(
                    got_init, first):
                acc.violate(fw.violation(
                    'C15.composite', 'generate_store-uses-stale-state',
                    f'generate_store() after initial_state(config) built '
                    f'{first} = {get(probes.pure(store.get_value()), first)}'
                    f', expected {get(got_init, first)}', case))
            for name, init, before in kept:
                if init != before:
                    acc.violate(fw.violation(
                        'C15.composite', 'process-initial-state-written',
                        f'{name} returns its own dictionary from '
                        f'initial_state(); after the composite\'s '
                        f'initial_state() calls it holds {init}, it was '
                        f'{before}', case))
            if got_def != want_def:
                acc.violate(fw.violation(
                    'C15.composite', 'default_state-misplaced',
                    f'Composite.default_state() = {got_def}, expected '
                    f'{want_def}', case))


def _mapped(ps, maps, i, what):
    out = {}
    for j, (vp, n) in enumerate(sorted(maps[i].items())):
        put(out, n, 900 + 10 * i + j)
    return out


def _leaves(tree, path=()):
    out = []
    for k, v in tree.items():
        if isinstance(v, dict):
            out += _leaves(v, path + (k,))
        else:
            out.append(path + (k,))
    return out


def special_cases(acc):
    """(a) one process with several ports wired to one store and to a
    sub-store of it: Composite.initial_state()/default_state() keep every
    port's values; (b) a glob nested in a glob reaches children that
    another process declared explicitly (without default)."""
    leaf = shapes.leaf
    # (a)
    for order in (('p1', 'p2', 'p3'), ('p3', 'p2', 'p1'), ('p2', 'p3', 'p1')):
        schema_all = {'p1': {'a': leaf(11), 'b': leaf(12)},
                      'p2': {'c': leaf(13)}, 'p3': {'d': leaf(14)}}
        topo_all = {'p1': ('s',), 'p2': ('s',), 'p3': ('s', 'deep')}
        init_all = {'p1': {'a': 101, 'b': 102}, 'p2': {'c': 103},
                    'p3': {'d': 104}}
        schema = {k: schema_all[k] for k in order}
        topo = {k: topo_all[k] for k in order}
        init = {k: init_all[k] for k in order}
        case = {'special': 'overlapping-ports', 'order': order}
        acc.case(key=('special', 'overlap', order), outcome='special')
        proc = probes.Probe({'pid': 'proc', 'schema': schema, 'init': init,
                             'log_states': False})
        comp = Composite({'processes': {'proc': proc},
                          'topology': {'proc': topo}})
        want_i = {'s': {'a': 101, 'b': 102, 'c': 103, 'deep': {'d': 104}}}
        want_d = {'s': {'a': 11, 'b': 12, 'c': 13, 'deep': {'d': 14}}}
        try:
            gi, gd = comp.initial_state(), comp.default_state()
            st_ = probes.pure(comp.generate_store().get_value())
        except Exception as e:  # noqa
            acc.violate(fw.violation(
                'C15.composite', f'raises-{type(e).__name__}',
                f'overlapping ports: {e!r}', case))
            continue
        if gi != want_i or gd != want_d:
            acc.violate(fw.violation(
                'C15.composite', 'overlapping-ports-lose-values',
                f'ports {order} wired to one store: initial_state() = {gi} '
                f'(expected {want_i}), default_state() = {gd}', case))
        elif {k: v for k, v in st_['s'].items()} != want_i['s']:
            acc.violate(fw.violation(
                'C15.composite', 'generate_store-loses-initial-values',
                f'generate_store() built {st_["s"]}, expected '
                f'{want_i["s"]}', case))
    # (b)
    for route in ('engine', 'store'):
        for q_first in (False, True):
            case = {'special': 'nested-glob', 'route': route,
                    'q_first': q_first}
            acc.case(key=('special', 'nested-glob', route, q_first),
                     outcome='special')
            P = ('P', {'agents': {'*': {'exchange': {'*': {
                '_default': 0, '_emit': True}}}}}, {'agents': ('agents',)})
            Q = ('Q', {'ex': {'glucose': {'_updater': 'accumulate',
                                          '_emit': True}}},
                 {'ex': ('agents', 'a1', 'exchange')})
            ps = [Q, P] if q_first else [P, Q]
            state = {'agents': {'a1': {'exchange': {'lactate': 4}},
                                'a2': {'exchange': {}}}}
            try:
                tree = construct(ps, (), state, route)
            except Exception as e:  # noqa
                acc.violate(fw.violation(
                    'C15.crash', f'nested-glob:{type(e).__name__}',
                    f'construction raised {e!r}', case))
                continue
            got = tree['agents']['a1']['exchange']
            if got.get('glucose') != 0 or got.get('lactate') != 4:
                acc.violate(fw.violation(
                    'C15.glob', 'nested-glob-child-lacks-declared-default',
                    f'agents/a1/exchange = {got}; the nested glob declares '
                    f'default 0 for every child (glucose is declared by '
                    f'another process without default)', case))


def special_cases_2(acc):
    """(c) several processes declare the same child variable of one glob
    store, only one of them with a default: children named in the initial
    state get that default whatever the wiring order; (d) a store built
    AGAIN from the same process objects after a declared default changed
    holds the new default."""
    # (c)
    for nested in (False, True):
        with_d = {'_default': 1.5, '_emit': True}
        without = {'_emit': True}
        sub = (lambda leaf: {'stats': {'age': dict(leaf)}}) if nested \
            else (lambda leaf: {'mass': dict(leaf)})
        G = ('growth', {'agents': {'*': sub(with_d)}},
             {'agents': ('agents',)})
        R = ('reporter', {'agents': {'*': sub(without)}},
             {'agents': ('agents',)})
        O = ('other', {'agents': {'*': {'extra': {'_default': 3,
                                                 '_emit': True}}}},
             {'agents': ('agents',)})
        for order in itertools.permutations((G, R, O)):
            for route in ('engine', 'store'):
                names = tuple(p[0] for p in order)
                case = {'special': 'glob-co-declarers', 'nested': nested,
                        'order': names, 'route': route}
                acc.case(key=('special', 'co-declarers', nested, names,
                              route), outcome='special')
                state = {'agents': {'a1': {}, 'a2': {'extra': 8}}}
                try:
                    tree = construct(list(order), (), state, route)
                except Exception as e:  # noqa
                    acc.violate(fw.violation(
                        'C15.crash', f'co-declarers:{type(e).__name__}',
                        f'construction raised {e!r}', case))
                    continue
                for child, extra in (('a1', 3), ('a2', 8)):
                    node = tree['agents'].get(child, {})
                    got = node.get('stats', {}).get('age') if nested \
                        else node.get('mass')
                    if got != 1.5 or node.get('extra') != extra:
                        acc.violate(fw.violation(
                            'C15.glob', 'co-declared-child-variable-lacks-'
                            'declared-default',
                            f'processes wired in order {names} ({route}): '
                            f'agents/{child} = {node}; expected the '
                            f'declared default 1.5 and extra={extra}',
                            case))
                        break
    # (d)
    for how in ('merge_overrides', 'schema_override', 'parameter'):
        for route in ('engine', 'store', 'composite'):
            case = {'special': 'rebuild', 'how': how, 'route': route}
            acc.case(key=('special', 'rebuild', how, route),
                     outcome='special')
            proc = probes.Probe({'pid': 'proc', 'log_states': False,
                                 'schema': {'port': {
                                     'mass': {'_default': 1.0,
                                              '_emit': True}}}})
            processes = {'proc': proc}
            topology = {'proc': {'port': ('cell',)}}

            def build():
                if route == 'engine':
                    eng = Engine(processes=processes, topology=topology,
                                 emitter={'type': 'null'},
                                 display_info=False)
                    return probes.pure(eng.state.get_value())
                if route == 'composite':
                    comp = Composite({'processes': processes,
                                      'topology': topology})
                    return probes.pure(comp.generate_store().get_value())
                return probes.pure(generate_state(
                    processes, topology, {}).get_value())
            try:
                first = build()['cell']['mass']
                if how == 'merge_overrides':
                    proc.merge_overrides({'port': {'mass': {
                        '_default': 5.0}}})
                elif how == 'schema_override':
                    Composite({'processes': processes,
                               'topology': topology}).merge(
                        schema_override={'proc': {'port': {'mass': {
                            '_default': 5.0}}}})
                else:
                    # a ports_schema() that depends on a parameter
                    proc.parameters['schema']['port']['mass'][
                        '_default'] = 5.0
                declared = proc.get_schema()['port']['mass']['_default']
                second = build()['cell']['mass']
            except Exception as e:  # noqa
                acc.violate(fw.violation(
                    'C15.crash', f'rebuild:{type(e).__name__}',
                    f'{how}/{route}: {e!r}', case))
                continue
            if first != 1.0 or declared != 5.0 or second != 5.0:
                acc.violate(fw.violation(
                    'C15.default', 'rebuilt-store-holds-stale-default',
                    f'{how}/{route}: first build mass={first}; after the '
                    f'change the process declares {declared}, the store '
                    f'built again holds {second}', case))


def special_cases_3(acc):
    """(e) two processes hand out ONE persistent schema object (a shared
    template); one of them carries a schema override: the override reaches
    that process's variables only, in either build order."""
    leaf = shapes.leaf
    for order in (('a', 'b'), ('b', 'a')):
        for route in ('engine', 'store', 'default_state'):
            case = {'special': 'shared-schema-template', 'order': order,
                    'route': route}
            acc.case(key=('special', 'shared-template', order, route),
                     outcome='special')
            template = {'port': {'x': leaf(1), 'y': leaf(2),
                                 'deep': {'z': leaf(3)}}}
            procs = {
                'a': probes.Probe({
                    'pid': 'a', 'log_states': False, 'schema': template,
                    'schema_by_reference': True,
                    '_schema': {'port': {'x': {'_default': 50},
                                         'deep': {'z': {'_default': 70}}}}}),
                'b': probes.Probe({
                    'pid': 'b', 'log_states': False, 'schema': template,
                    'schema_by_reference': True})}
            processes = {k: procs[k] for k in order}
            topology = {k: {'port': (f'store_{k}',)} for k in order}
            try:
                if route == 'engine':
                    eng = Engine(processes=processes, topology=topology,
                                 emitter={'type': 'null'},
                                 display_info=False)
                    tree = probes.pure(eng.state.get_value())
                elif route == 'store':
                    tree = probes.pure(generate_state(
                        processes, topology, {}).get_value())
                else:
                    tree = Composite({'processes': processes,
                                      'topology': topology}).default_state()
            except Exception as e:  # noqa
                acc.violate(fw.violation(
                    'C15.crash', f'shared-template:{type(e).__name__}',
                    f'{case}: {e!r}', case))
                continue
            want = {'store_a': {'x': 50, 'y': 2, 'deep': {'z': 70}},
                    'store_b': {'x': 1, 'y': 2, 'deep': {'z': 3}}}
            got = {k: tree.get(k) for k in want}
            if got != want:
                acc.violate(fw.violation(
                    'C15.default', 'override-leaks-through-shared-schema',
                    f'processes built in order {order} ({route}) from one '
                    f'schema template, a carries an override: {got}, '
                    f'expected {want}', case))


def special_cases_4(acc):
    """(f) one process returns a dictionary it keeps from initial_state();
    two of its ports are wired to ONE store (and a second process and the
    caller's explicit initial state write to that store as well): every
    call of the composite's initial_state() gives the same answer and the
    process's own dictionary is never written."""
    leaf = shapes.leaf
    for two_procs, explicit in itertools.product((False, True), repeat=2):
        case = {'special': 'kept-initial-state', 'two_procs': two_procs,
                'explicit': explicit}
        acc.case(key=('special', 'kept-init', two_procs, explicit),
                 outcome='special')
        # (port p3: an EMPTY dictionary for a glob store, into which the
        # explicit call names a child)
        own = {'p1': {'sub': {'a': 1}, 'kids': {}}, 'p2': {'sub': {'b': 2}},
               'p3': {}}
        before = copy.deepcopy(own)
        schema = {pt: {'sub': {'a': leaf(0), 'b': leaf(0), 'c': leaf(0)}}
                  for pt in ('p1', 'p2')}
        schema['p3'] = {'*': {'m': leaf(0)}}
        # ... and an empty dictionary for a glob store NESTED in a port
        schema['p1']['kids'] = {'*': {'m': leaf(0)}}
        processes = {'p': probes.Probe({
            'pid': 'p', 'log_states': False, 'schema': schema,
            'init': own, 'init_by_reference': True})}
        topology = {'p': {'p1': ('store',), 'p2': ('store',),
                          'p3': ('cells',)}}
        want = {'store': {'sub': {'a': 1, 'b': 2}, 'kids': {}},
                'cells': {}}
        if two_procs:
            processes['q'] = probes.Probe({
                'pid': 'q', 'log_states': False,
                'schema': {'p1': {'sub': {'c': leaf(0)}}},
                'init': {'p1': {'sub': {'c': 3}}}})
            topology['q'] = {'p1': ('store',)}
            want['store']['sub']['c'] = 3
        try:
            comp = Composite({'processes': processes, 'topology': topology})
            got = [comp.initial_state()]
            if explicit:
                comp.initial_state({'initial_state': {
                    'store': {'sub': {'a': -5, 'b': -6},
                              'kids': {'k1': {'m': 1}}},
                    'cells': {'c1': {'m': 2.5}}}})
            got.append(comp.initial_state())
        except Exception as e:  # noqa
            acc.violate(fw.violation(
                'C15.crash', f'kept-init:{type(e).__name__}',
                f'{case}: {e!r}', case))
            continue
        if got != [want, want] or own != before:
            acc.violate(fw.violation(
                'C15.composite', 'process-initial-state-written',
                f'two ports on one store (second process: {two_procs}, '
                f'explicit call in between: {explicit}): initial_state() '
                f'gave {got}, expected twice {want}; the dictionary the '
                f'process keeps is {own}, it was {before}', case))


def special_cases_5(acc):
    """(g) composites built from configuration dictionaries WITHOUT a
    'state' entry; a state is merged into one of them: the others - built
    before or after - still answer initial_state() with their processes'
    own values, and so does a store generated from them."""
    leaf = shapes.leaf

    def mk():
        return Composite({
            'processes': {'p': probes.Probe({
                'pid': 'p', 'log_states': False,
                'schema': {'port': {'a': leaf(1), 'b': leaf(2)}},
                'init': {'port': {'a': 10}}})},
            'topology': {'p': {'port': ('pool',)}}})
    for when in ('before', 'after'):
        case = {'special': 'composites-share-state', 'other_built': when}
        acc.case(key=('special', 'share-state', when), outcome='special')
        try:
            other = mk() if when == 'before' else None
            one = mk()
            one.merge(state={'pool': {'a': 99, 'b': 98}})
            if other is None:
                other = mk()
            got = other.initial_state()
            tree = probes.pure(other.generate_store().get_value())
            built = {'a': tree['pool']['a'], 'b': tree['pool']['b']}
        except Exception as e:  # noqa
            acc.violate(fw.violation(
                'C15.crash', f'share-state:{type(e).__name__}',
                f'{case}: {e!r}', case))
            continue
        if got != {'pool': {'a': 10}} or built != {'a': 10, 'b': 2}:
            acc.violate(fw.violation(
                'C15.composite', 'state-of-another-composite',
                f'a state was merged into ONE composite; another one '
                f'(built {when}) answers initial_state() = {got} and '
                f'builds pool = {built}; expected {{pool: {{a: 10}}}} and '
                f'{{a: 10, b: 2}}', case))


def run_job(job, acc):
    if job[0] == 'special':
        special_cases(acc)
        special_cases_2(acc)
        special_cases_3(acc)
        special_cases_4(acc)
        special_cases_5(acc)
        return
    if job[0] == 'conflicts':
        conflict_cases(acc)
    elif job[0] == 'composite':
        composite_state_cases(acc)
    else:
        check_combo(job, acc)


def jobs(ctx):
    opts = options()
    out = [('conflicts',), ('composite',), ('special',)]
    nmax = BOUNDS[ctx.tier]['processes']
    for n in range(1, nmax + 1):
        combos = itertools.combinations_with_replacement(opts, n)
        for combo in combos:
            for place in ((), ('c',)) if n < 3 else (('c',),):
                for mode in ('all', 'first'):
                    out.append((tuple(combo), place, mode))
    return out


def run(ctx):
    return ctx.map(run_job, jobs(ctx))


def replay(case):
    acc = fw.Acc()
    if 'special' in case:
        special_cases(acc)
        special_cases_2(acc)
        special_cases_3(acc)
        special_cases_4(acc)
        special_cases_5(acc)
    elif 'conflict' in case:
        conflict_cases(acc)
    elif 'composite_state' in case:
        composite_state_cases(acc)
    else:
        check_combo((tuple(tuple(c) for c in case['combo']),
                     tuple(case['place']), case['defaults']), acc)
    return [v for exs in acc.viol_examples.values() for v in exs]


RULE += (
    ' Special cases: glob co-declarers (only one gives the default), stores built again after a declared default changed, two processes handing out ONE schema object of which one carries an override, processes that return a dictionary they KEEP from initial_state() (all composite cases run in both modes; two ports on one store; an explicit call in between): every initial_state() call answers the same and the kept dictionary is never written.')

RULE += (
    ' Route engine+undeclared: the explicit initial state also names keys that NO process declares, listed before the declared ones - declared variables still get their explicit value and glob children are still created. Conflicts between dictionary- and array-valued declarations (different keys / shapes) must raise.')

RULE += (
    ' (g) composites built from configuration dictionaries without a state entry do not share one: a state merged into one of them is not answered by another (built before or after).')
