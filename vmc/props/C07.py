"""C07 - a process sees exactly its declared variables, always from the
current hierarchy.  X: schema/topology grammar with undeclared extras;
B: BFS over structural histories issued by another process or step."""
import copy

from vmc import framework as fw
from vmc import probes, shapes, worlds
from vmc import structural as st
from vmc import agents
from vmc.ref import resolve as rr
from vmc.props import C06

ID = 'C07'
LEVEL = 'model_checking'
RULE = (
    'X: the C06 grammar (one port full, two ports reduced) with extra '
    'undeclared variables and children declared by another process in '
    'every store the observer touches, _output ports, "**" ports, and two '
    'processes declaring different nested sub-variables under one glob '
    'store. B: explorer B - BFS over histories of _add/_delete/_generate/'
    '_divide/_move (and pairs) on containers X, Y issued by a process or a '
    'step, observed by a process with two glob ports and a nested port, '
    'observer timestep 1 or 2 (mid-interval when the structure changes) or '
    'a step that depends on the operator step. '
    'Oracle at EVERY calculate_timestep / update_condition / next_update '
    'call: states == independent projection of the whole-hierarchy '
    'snapshot taken at the same moment through the reference resolver. '
    'A case is one (shape) or one (history, issuer, observer timestep). '
    'Plus the agents family (controllers inside dividing / dying / '
    'migrating compartments that watch both containers) and watchers with '
    'an empty glob over a store whose children are added / generated / '
    'deleted.')
ASSUMPTIONS = [
    'the snapshot is Engine.state.get_value() read inside the observer\'s '
    'own callback',
    'canonical-state merging as in C09',
]
BOUNDS = {'quick': {'depth': 2}, 'thorough': {'depth': 3}}


def put(tree, path, value):
    for k in path[:-1]:
        tree = tree.setdefault(k, {})
    tree[path[-1]] = value


# ----------------------------------------------------------------------
# oracle: every callback of the observer

def check_trace(ex, pid, schema, topology, place, V):
    """Compare the states of every logged callback of probe ``pid`` with
    the projection of the snapshot logged just before its invoke."""
    events = ex.trace
    n_checked = 0
    for idx, ev in enumerate(events):
        if ev[0] != 'snap' or ev[2] != pid:
            continue
        snap = ev[5]
        want = rr.project(schema, topology, place, snap)
        # the invoke that follows, and the poll / cond just before
        inv = next((e for e in events[idx + 1:idx + 3]
                    if e[0] == 'invoke' and e[2] == pid), None)
        group = [('next_update', inv[6])] if inv else []
        j = idx - 1
        while j >= 0 and events[j][0] in ('poll', 'cond') and \
                events[j][2] == pid:
            e = events[j]
            group.append(('calculate_timestep' if e[0] == 'poll'
                          else 'update_condition',
                          e[6] if e[0] == 'poll' else e[7]))
            j -= 1
        for hook, states in group:
            n_checked += 1
            if states != want:
                extra, missing = diff_keys(states, want)
                if extra:
                    fp = 'sees-undeclared-or-deleted'
                elif missing:
                    fp = 'misses-declared-or-added'
                else:
                    fp = 'stale-value'
                V('C07.view', fp,
                  f'{hook} of {pid} at t={ev[4]}: states {states} but the '
                  f'projection of the hierarchy is {want} (extra {extra}, '
                  f'missing {missing})')
                return n_checked
    return n_checked


def flat(tree, path=()):
    out = {}
    if isinstance(tree, dict):
        if not tree:
            out[path] = {}
        for k, v in tree.items():
            out.update(flat(v, path + (k,)))
    else:
        out[path] = tree
    return out


def diff_keys(got, want):
    g, w = flat(got), flat(want)
    return sorted(set(g) - set(w)), sorted(set(w) - set(g))


# ----------------------------------------------------------------------
# X part

def x_world(shape, variant):
    pl = C06.plan(shape)
    if pl is None:
        return None
    schema, topology, place, mapping, nodes, value = pl
    schema = copy.deepcopy(schema)
    state = {}
    for n, v in value.items():
        put(state, n, v)
    processes, topo = {}, {}
    spec_obs = {'cls': 'P', 'pid': 'obs', 'ts': 1, 'schema': schema,
                'log_snapshot': True, 'update': {}}
    if variant == 'output':
        first = sorted(schema)[0]
        if rr.is_variable(schema[first]):
            return None
        schema[first]['_output'] = True
    put(processes, place + ('proc',), spec_obs)
    put(topo, place + ('proc',), copy.deepcopy(topology))
    # another process declares extra variables and children in every store
    # the observer touches (absolute paths from the root)
    stores = sorted({n[:-1] for n in nodes})
    glob_stores = {}
    rr._globs(schema, topology, place, C06._Everything(), glob_stores)
    other_schema, other_topo = {}, {}
    for i, s in enumerate(stores):
        if s in glob_stores or any(
                s[:len(g)] == g and len(s) > len(g) + 1
                for g in glob_stores):
            continue   # children of a glob store must fit its sub-schema
        if any(s == g + (c,) for g in glob_stores
               for c in shapes.GLOB_CHILDREN):
            # a child of a glob store: one extra undeclared variable
            if any(n == s for n in nodes):
                continue
            other_schema[f'st{i}'] = {
                'extra': {'_default': 990 + i, '_emit': True}}
            other_topo[f'st{i}'] = s
            continue
        if any(n == s + ('extra',) or n[:len(s) + 1] == s + ('xc',)
               for n in nodes):
            continue
        other_schema[f'st{i}'] = {
            'extra': {'_default': 990 + i, '_emit': True},
            'xc': {'y': {'_default': 5, '_emit': True}}}
        other_topo[f'st{i}'] = s
    if other_schema and 'other' not in processes:
        processes['other'] = {'cls': 'P', 'pid': 'other', 'ts': 1,
                              'schema': other_schema, 'log_states': False,
                              'update': {}}
        topo['other'] = other_topo
    return ({'processes': processes, 'topology': topo, 'state': state,
             'script': [('update', 2)]}, schema, topology, place)


def run_x(job, acc):
    _, shape, variant = job
    built = x_world(shape, variant)
    if built is None:
        acc.counters['ill_formed_skipped'] += 1
        return
    spec, schema, topology, place = built
    case = {'part': 'X', 'shape': shape, 'variant': variant}
    V = lambda rule, fp, msg: acc.violate(  # noqa
        fw.violation(rule, fp, msg, case))
    ex = worlds.execute(spec)
    acc.case(key=('X', fw.jdump(shape), variant), outcome=f'X:{variant}')
    acc.validated += 1
    if ex.error:
        V('C07.crash', f'X:{type(ex.error[2]).__name__}',
          f'unexpected {ex.error[2]!r} for {schema} / {topology}')
        return
    n = check_trace(ex, 'obs', schema, topology, place, V)
    acc.counters['callbacks_checked'] += n


def special_worlds():
    """'**' port, and two glob declarers with different nested
    sub-variables on one store."""
    out = []
    leaf = shapes.leaf
    # '**' over a branch that holds variables only
    out.append(('starstar', {
        'processes': {
            'obs': {'cls': 'P', 'pid': 'obs', 'ts': 1, 'log_snapshot': True,
                    'schema': {'all': '**', 'own': {'a': leaf()}},
                    'update': {}},
            'decl': {'cls': 'P', 'pid': 'decl', 'ts': 1,
                     'log_states': False,
                     'schema': {'b': {'x': leaf(1), 'deep': {'y': leaf(2)}}},
                     'update': {'b': {'x': 1}}}},
        'topology': {'obs': {'all': ('branch',), 'own': ('mine',)},
                     'decl': {'b': ('branch',)}},
        'script': [('update', 2)]}))
    # '**' over a glob store that another process empties (t=1) and
    # refills (t=3), and a glob port on the compartment that holds the
    # observer itself (one entry per child, processes included)
    for issuer in ('P', 'S'):
        n0 = 0 if issuer == 'P' else 1
        mgr = {'cls': issuer, 'pid': 'mgr', 'ts': 1, 'log_states': False,
               'schema': {'agents': {'*': {'m': leaf(1)}}},
               'update': {'$n': {n0: {'agents': {'_delete': ['a', 'b']}},
                                 n0 + 2: {'agents': {'_add': [{
                                     'key': 'c', 'state': {'m': 3}}]}}},
                          '$else': {}}}
        spec = {
            'processes': {
                'obs': {'cls': 'P', 'pid': 'obs', 'ts': 1,
                        'log_snapshot': True,
                        'schema': {'all': '**'}, 'update': {}},
                'cell': {'lister': {'cls': 'P', 'pid': 'lister', 'ts': 1,
                                    'log_snapshot': True,
                                    'schema': {'me': {'*': {}}},
                                    'update': {}}}},
            'steps': {}, 'flow': {},
            'topology': {'obs': {'all': ('agents',)},
                         'mgr': {'agents': ('agents',)},
                         'cell': {'lister': {'me': ()}}},
            'state': {'agents': {'a': {'m': 1}, 'b': {'m': 2}}},
            'script': [('update', 5)]}
        if issuer == 'P':
            spec['processes']['mgr'] = mgr
        else:
            spec['steps']['mgr'] = mgr
            spec['flow']['mgr'] = []
        out.append((f'starstar-emptied:{issuer}', spec))
    # two processes declare different nested sub-variables of one glob store
    for nested in (True, False):
        sub_p = {'boundary': {'mass': leaf(1.0)}} if nested else \
            {'mass': leaf(1.0)}
        sub_q = {'boundary': {'volume': leaf(7.0)}} if nested else \
            {'volume': leaf(7.0)}
        out.append((f'two-glob-declarers:nested={nested}', {
            'processes': {
                'obs': {'cls': 'P', 'pid': 'obs', 'ts': 1,
                        'log_snapshot': True,
                        'schema': {'agents': {'*': sub_p}}, 'update': {}},
                'q': {'cls': 'P', 'pid': 'q', 'ts': 1, 'log_snapshot': True,
                      'schema': {'agents': {'*': sub_q}}, 'update': {}}},
            'topology': {'obs': {'agents': ('agents',)},
                         'q': {'agents': ('agents',)}},
            'state': {'agents': {'a': {}, 'b': {}}},
            'script': [('update', 2)]}))
    # a store is deleted and re-created within one tick by two operators;
    # an observer WITHOUT glob ports is wired straight to it
    for how in ('add', 'generate'):
        for tick in (0, 1, 2):
            if how == 'add':
                second = {'box': {'_add': [{'key': 'a', 'state': {
                    'v': 77, 'w': 3}}]}}
            else:
                second = {'box': {'_generate': [{
                    'key': 'a', 'processes': {}, 'topology': {},
                    'initial_state': {'v': 77, 'w': 3}}]}}
            kid = {'v': leaf(0), 'w': leaf(1)}
            out.append((f'replace-store:{how}:tick={tick}', {
                'processes': {
                    'obs': {'cls': 'P', 'pid': 'obs', 'ts': 1,
                            'log_snapshot': True,
                            'schema': {'direct': {'v': leaf(0)},
                                       'up': {'w': leaf(1)}},
                            'update': {'direct': {'v': 1}}},
                    'op1': {'cls': 'P', 'pid': 'op1', 'ts': 1,
                            'log_states': False,
                            'schema': {'box': {'*': kid}},
                            'update': {'$n': {tick: {'box': {
                                '_delete': ['a']}}}, '$else': {}}},
                    'op2': {'cls': 'P', 'pid': 'op2', 'ts': 1,
                            'log_states': False,
                            'schema': {'box': {'*': kid}},
                            'update': {'$n': {tick: second},
                                       '$else': {}}}},
                'topology': {'obs': {'direct': ('X', 'a'),
                                     'up': ('X', 'a')},
                             'op1': {'box': ('X',)},
                             'op2': {'box': ('X',)}},
                'state': {'X': {'a': {'v': 5, 'w': 2}}},
                'script': [('update', 4)]}))
    return out


def empty_glob_worlds():
    """A watcher whose glob port declares NO sub-variables ('*': {}, as the
    repository's Engulf / Burst / SwapProcesses do) over a store nobody
    gives a sub-schema: it must still see one entry per current child
    after _add / _delete / _generate by another process."""
    out = []
    leaf = shapes.leaf
    ops = {
        'add': {'pool': {'_add': [{'key': 'k1', 'state': {}}]}},
        'generate': {'pool': {'_generate': [{
            'key': 'k1', 'processes': {}, 'topology': {},
            'initial_state': {}}]}},
        # added, and deleted one tick later
        'delete': {'pool': {'_delete': ['k1']}},
    }
    for op, upd in ops.items():
        for tick in (0, 1):
            for issuer in ('P', 'S'):
                n = tick if issuer == 'P' else tick + 1
                spec = {
                    'processes': {
                        'obs': {'cls': 'P', 'pid': 'obs', 'ts': 1,
                                'log_snapshot': True,
                                'schema': {'pool': {'*': {}}},
                                'update': {}},
                        'member': {'cls': 'P', 'pid': 'member', 'ts': 1,
                                   'log_states': False,
                                   'schema': {'me': {'v': leaf(1)},
                                              'you': {'v': leaf(2)}},
                                   'update': {}}},
                    'steps': {}, 'flow': {},
                    'topology': {'obs': {'pool': ('pool',)},
                                 'member': {'me': ('pool', 'a0'),
                                            'you': ('pool', 'b0')},
                                 'adder': {'pool': ('pool',)}},
                    'script': [('update', 4)]}
                adder = {'cls': issuer, 'pid': 'adder', 'ts': 1,
                         'log_states': False, 'schema': {'pool': {}},
                         'update': {'$n': {n: upd}, '$else': {}}}
                if op == 'delete':
                    adder['update'] = {'$n': {n: ops['add'], n + 1: upd},
                                       '$else': {}}
                if issuer == 'P':
                    spec['processes']['adder'] = adder
                else:
                    spec['steps']['adder'] = adder
                    spec['flow']['adder'] = []
                out.append((f'empty-glob:{op}:{issuer}:tick={tick}', spec))
    return out


def nested_glob_worlds():
    """An observer with a glob nested in a glob (cells/*/organelles/*):
    children added / deleted at the INNER level by another process or step
    appear in / vanish from its view."""
    out = []
    leaf = shapes.leaf
    for tick in (0, 1):
        for issuer in ('P', 'S'):
            for cell in ('c1', 'c2'):
                n = tick if issuer == 'P' else tick + 1
                spec = {
                    'processes': {
                        'obs': {'cls': 'P', 'pid': 'obs', 'ts': 1,
                                'log_snapshot': True,
                                'schema': {'cells': {'*': {'organelles': {
                                    '*': {'m': leaf(0)}}}}},
                                'update': {}}},
                    'steps': {}, 'flow': {},
                    'topology': {
                        'obs': {'cells': ('cells',)},
                        'op': {'org': ('cells', cell, 'organelles')}},
                    'state': {'cells': {
                        'c1': {'organelles': {'o1': {'m': 1},
                                              'o2': {'m': 2}}},
                        'c2': {'organelles': {'o1': {'m': 3}}}}},
                    'script': [('update', 4)]}
                op = {'cls': issuer, 'pid': 'op', 'ts': 1,
                      'log_states': False,
                      'schema': {'org': {'*': {'m': leaf(0)}}},
                      'update': {'$n': {
                          n: {'org': {'_add': [{'key': 'o3',
                                                'state': {'m': 9}}]}},
                          n + 1: {'org': {'_delete': ['o1']}}},
                          '$else': {}}}
                if issuer == 'P':
                    spec['processes']['op'] = op
                else:
                    spec['steps']['op'] = op
                    spec['flow']['op'] = []
                out.append((f'nested-glob:{cell}:{issuer}:tick={tick}',
                            spec))
    return out


def store_entry_cases(acc):
    """Engine(store=..., initial_state=...): children that the initial
    state adds to a glob-observed store are in the observer's view from its
    first invocation."""
    from vivarium.core.store import generate_state
    leaf = shapes.leaf
    for extra in ({'k_new': {'v': 5}}, {'k_new': {'v': 5}, 'k2': {}}, {}):
        case = {'part': 'S', 'label': 'store-entry',
                'extra': sorted(extra)}
        acc.case(key=('store-entry', tuple(sorted(extra))), outcome='S')
        V = lambda rule, fp, msg: acc.violate(  # noqa
            fw.violation(rule, fp, msg, case))
        obs = probes.Probe({'pid': 'obs', 'ts': 1, 'log_snapshot': True,
                            'schema': {'pool': {'*': {'v': leaf(0)}}},
                            'update': {}})
        member = probes.Probe({'pid': 'member', 'ts': 1,
                               'log_states': False,
                               'schema': {'me': {'v': leaf(1)}},
                               'update': {'me': {'v': 1}}})
        try:
            store = generate_state(
                {'obs': obs, 'member': member},
                {'obs': {'pool': ('pool',)},
                 'member': {'me': ('pool', 'a0')}}, {})
            probes.TRACE = trace = []
            eng = probes.MonitoredEngine(
                store=store, initial_state={'pool': copy.deepcopy(extra)},
                emitter={'type': 'vmc_probe'}, display_info=False)
            eng.update(2)
        except Exception as e:  # noqa
            probes.TRACE = None
            V('C07.crash', f'store-entry:{type(e).__name__}',
              f'{case}: unexpected {e!r}')
            continue
        probes.TRACE = None
        snap = None
        for ev in trace:
            if ev[0] == 'snap' and ev[2] == 'obs':
                snap = ev[5]
            elif ev[0] in ('invoke',) and ev[2] == 'obs':
                want = sorted(k for k, v in snap['pool'].items()
                              if v != '<process>')
                got = sorted(ev[6].get('pool', {}))
                if got != want or set(want) != {'a0'} | set(extra):
                    V('C07.view', 'store-entry-misses-initial-children',
                      f'Engine(store=..., initial_state adds '
                      f'{sorted(extra)}): next_update of obs at t={ev[4]} '
                      f'sees {got}, the store holds {want}')
                    break


def run_special(job, acc):
    _, label, spec = job
    if label == 'store-entry':
        store_entry_cases(acc)
        return
    case = {'part': 'S', 'label': label}
    V = lambda rule, fp, msg: acc.violate(  # noqa
        fw.violation(rule, fp, msg, case))
    ex = worlds.execute(spec)
    acc.case(key=('S', label), outcome='S')
    if ex.error:
        V('C07.crash', f'S:{type(ex.error[2]).__name__}',
          f'{label}: unexpected {ex.error[2]!r}')
        return
    if label == 'starstar':
        for ev in ex.trace:
            if ev[0] == 'snap' and ev[2] == 'obs':
                snap = ev[5]
            if ev[0] == 'invoke' and ev[2] == 'obs':
                want = {'all': snap['branch'], 'own': {'a': snap['mine']['a']}}
                if ev[6] != want:
                    V('C07.view', 'starstar-port',
                      f'"**" port: states {ev[6]}, hierarchy gives {want}')
                    return
        return
    if label.startswith('starstar-emptied'):
        snap = None
        seen_empty = False
        for ev in ex.trace:
            if ev[0] == 'snap' and ev[2] in ('obs', 'lister'):
                snap = ev[5]
            if ev[0] == 'invoke' and ev[2] == 'obs':
                want = {'all': snap.get('agents')}
                seen_empty = seen_empty or want['all'] == {}
                if ev[6] != want:
                    V('C07.view', 'starstar-port-over-emptied-store',
                      f'"**" port at t={ev[4]}: states {ev[6]}, the '
                      f'hierarchy gives {want}')
                    return
            if ev[0] == 'invoke' and ev[2] == 'lister':
                got = ev[6].get('me')
                ok = isinstance(got, dict) and set(got) == {'lister'} and \
                    isinstance(got['lister'], tuple) and len(
                        got['lister']) == 2
                if not ok:
                    V('C07.view', 'compartment-glob-child-shape',
                      f'glob port on the compartment at t={ev[4]}: states '
                      f'{ev[6]}; expected one entry per child, a child '
                      f'that holds a process as (process, topology)')
                    return
        if not seen_empty:
            V('C07.view', 'starstar-world-vacuous',
              'the store was never seen empty')
        return
    if label.startswith('nested-glob'):
        snap, views = None, set()
        for ev in ex.trace:
            if ev[0] == 'snap' and ev[2] == 'obs':
                snap = ev[5]
            if ev[0] == 'invoke' and ev[2] == 'obs':
                want = {c: sorted(node.get('organelles', {}))
                        for c, node in snap['cells'].items()}
                got = {c: sorted(node.get('organelles', {}))
                       for c, node in ev[6].get('cells', {}).items()}
                views.add(fw.jdump(want))
                if got != want:
                    V('C07.view', 'nested-glob-misses-or-keeps-children',
                      f'{label}: next_update of obs at t={ev[4]}: the '
                      f'nested glob lists {got}, the hierarchy holds '
                      f'{want}')
                    return
        if len(views) != 3:
            V('C07.view', 'nested-glob-world-vacuous',
              f'{label}: {len(views)} distinct structures observed')
        return
    if label.startswith('empty-glob'):
        snap, n_changes, last = None, 0, None
        for ev in ex.trace:
            if ev[0] == 'snap' and ev[2] == 'obs':
                snap = ev[5]
            if ev[0] == 'invoke' and ev[2] == 'obs':
                want = sorted(k for k, v in snap['pool'].items()
                              if v != '<process>')
                got = sorted(ev[6].get('pool', {}))
                if got != want:
                    V('C07.view', 'empty-glob-misses-or-keeps-children',
                      f'{label}: next_update of obs at t={ev[4]}: the '
                      f'"*": {{}} port lists {got}, the store holds {want}')
                    return
                if last is not None and want != last:
                    n_changes += 1
                last = want
        if n_changes != (2 if ':delete:' in label else 1):
            V('C07.view', 'empty-glob-world-vacuous',
              f'{label}: the pool changed {n_changes} times')
        return
    if label.startswith('replace-store'):
        check_trace(ex, 'obs', spec['processes']['obs']['schema'],
                    spec['topology']['obs'], (),
                    lambda rule, fp, msg: V(
                        rule, 'reads-replaced-node', msg))
        return
    for pid in ('obs', 'q'):
        schema = spec['processes'][pid]['schema']
        check_trace(ex, pid, schema, spec['topology'][pid], (),
                    lambda rule, fp, msg: V(
                        rule, 'sees-sub-variable-declared-by-another-glob-'
                        'process' if fp == 'sees-undeclared-or-deleted'
                        else fp, msg))


# ----------------------------------------------------------------------
# B part

OBS_SCHEMA = {
    'kx': {'*': {'v': dict(st.VAR)}},
    'ky': {'*': {'v': dict(st.VAR), 'w': dict(st.SETVAR)}},
    'n': {'deep': {'q': {'_default': 3, '_emit': True}}},
}
OBS_TOPO = {'kx': ('X',), 'ky': ('Y',), 'n': ('side',)}


def b_world(init, history, issuer, obs_ts, kind='vars'):
    script = {}
    for i, op in enumerate(history):
        n = i if issuer == 'process' else i + 1
        # the structural entry is followed, in the same update, by an
        # ordinary branch update of another port
        upd = st.op_update(op, 'full' if kind == 'full' else 'inert')
        upd['stats'] = {'count': 1}
        if kind == 'full':
            _snapshots_in_template(upd)
        script[n] = upd

    def extra(spec):
        if obs_ts == 'step':
            # the observer is a step of a later layer than the operator
            # step: it must see the operator's change in the same phase
            spec['steps']['obs'] = {
                'cls': 'S', 'pid': 'obs', 'log_snapshot': True,
                'schema': copy.deepcopy(OBS_SCHEMA), 'update': {}}
            spec['flow']['obs'] = [('op',)]
        else:
            spec['processes']['obs'] = {
                'cls': 'P', 'pid': 'obs',
                'ts': 1.5 if obs_ts == 'wait' else obs_ts,
                'log_snapshot': True,
                'schema': copy.deepcopy(OBS_SCHEMA), 'update': {}}
        spec['topology']['obs'] = dict(OBS_TOPO)
        where = spec['steps'] if issuer == 'step' else spec['processes']
        where['op']['schema']['stats'] = {'count': dict(st.VAR)}
        spec['topology']['op']['stats'] = ('stats',)
        if kind == 'full':
            _snapshots_on(spec['processes'])
            _snapshots_on(spec['steps'])
        spec['processes']['ticker'] = {
            'cls': 'P', 'pid': 'ticker', 'ts': 1, 'log_states': False,
            'schema': {'tk': {'n': dict(st.VAR)}},
            'update': {'tk': {'n': 1}}}
        spec['topology']['ticker'] = {'tk': ('ticker_store',)}
    spec = st.initial_world(kind, {}, issuer, script, init=init,
                            extra=extra)
    spec['script'] = [('update', len(history) + 2)]
    if obs_ts == 'wait':
        # the observer's timestep (1.5) crosses the end of every call: it
        # WAITS across non-forcing run_for calls while the operator
        # changes the structure, and is then shown the current state
        spec['script'] = [('run_for', 1, False)] * (len(history) + 3)
    return spec


INITS = [{'X': ['a', 'b'], 'Y': []}, {'X': ['a'], 'Y': ['b']}]


def _snapshots_in_template(tpl):
    if isinstance(tpl, dict):
        if '$probes' in tpl:
            _snapshots_on(tpl['$probes'])
        else:
            for v in tpl.values():
                _snapshots_in_template(v)
    elif isinstance(tpl, list):
        for v in tpl:
            _snapshots_in_template(v)


def _snapshots_on(tree):
    for k, v in tree.items():
        if isinstance(v, dict) and 'cls' in v:
            if v.get('pid') not in ('op', 'ticker'):
                v['log_snapshot'] = True
        elif isinstance(v, dict):
            _snapshots_on(v)


def check_inner(ex, V):
    """Every callback of every probe inside a compartment (processes,
    flow steps, derivers - also generated, divided and moved ones): its
    states == projection of the snapshot through ITS schema and topology
    at the place where it currently lives."""
    n = 0
    events = ex.trace
    for idx, ev in enumerate(events):
        if ev[0] != 'snap' or ev[2] in ('obs', 'op', 'ticker') or \
                len(ev) < 7 or ev[6] is None:
            continue
        own = tuple(ev[6])
        inv = next((e for e in events[idx + 1:idx + 3]
                    if e[0] == 'invoke' and e[1] == ev[1]), None)
        if inv is None:
            continue
        p, s_, f, t = st.inner_spec('full')
        spec_p = dict(p, **s_).get(ev[2])
        if spec_p is None:
            continue
        want = rr.project(spec_p['schema'], {'in': ()}, own[:-1], ev[5])
        n += 1
        if inv[6] != want:
            V('C07.view', 'inner-probe-sees-stale-or-foreign-node',
              f'{ev[2]} at {own} (t={ev[4]}): states {inv[6]} but the '
              f'hierarchy gives {want}')
            return n
    return n


def run_b(job, acc):
    _, init_i, history, issuer, obs_ts = job[:5]
    kind = job[5] if len(job) > 5 else 'vars'
    init = INITS[init_i]
    case = {'part': 'B', 'init': init_i, 'history': history,
            'issuer': issuer, 'obs_ts': obs_ts, 'kind': kind}
    V = lambda rule, fp, msg: acc.violate(  # noqa
        fw.violation(rule, fp, msg, case))
    spec = b_world(init, history, issuer, obs_ts, kind)
    ex = worlds.execute(spec)
    models = st.replay_model(init, kind, history, gen_kind=(
        'full' if kind == 'full' else None))
    acc.case(key=('B', init_i, history, issuer, obs_ts),
             outcome=f'B:{issuer}:{history[-1][0]}')
    acc.state(models[-1].canon())
    for a, b, op in zip(models, models[1:], history):
        acc.transition(a.canon(), b.canon(), op[0])
    acc.validated += 1
    if ex.error:
        V('C07.crash', f'B:{history[-1][0]}:{issuer}:'
          f'{type(ex.error[2]).__name__}',
          f'history {history}: unexpected {ex.error[2]!r}')
        return
    n = check_trace(ex, 'obs', OBS_SCHEMA, OBS_TOPO, (), V)
    acc.counters['callbacks_checked'] += n
    if kind == 'full':
        acc.counters['inner_callbacks_checked'] += check_inner(ex, V)
    if obs_ts == 'step' and not ex.error:
        # the dependent observer step sees each operation in the phase in
        # which the operator step issued it
        views = [tuple(sorted(ev[6]['kx'])) + ('|',) + tuple(sorted(
            ev[6]['ky'])) for ev in ex.trace
            if ev[0] == 'invoke' and ev[2] == 'obs']
        for i, m in enumerate(models[1:]):
            want = tuple(sorted(m.t['X'])) + ('|',) + tuple(sorted(m.t['Y']))
            if i + 1 < len(views) and views[i + 1] != want:
                V('C07.view', 'dependent-step-sees-stale-structure',
                  f'observer step run {i + 1}: sees {views[i + 1]}, the '
                  f'operator step just produced {want}')
                break
    # the observer really saw the changing structure (vacuity guard)
    seen = {tuple(sorted(ev[6]['kx'])) for ev in ex.trace
            if ev[0] == 'invoke' and ev[2] == 'obs'}
    acc.counters['distinct_views_in_history'] += len(seen)
    if len(acc.samples) < 2 and len(history) >= 2:
        acc.sample({'history': history, 'issuer': issuer, 'obs_ts': obs_ts,
                    'kx_views': sorted(map(list, seen))})


def run_job(job, acc):
    if job[0] == 'agents':
        agents.judge(job[1:], acc, 'C07')
    elif job[0] == 'X':
        run_x(job, acc)
    elif job[0] == 'S':
        run_special(job, acc)
    else:
        run_b(job, acc)


def jobs(ctx):
    out = []
    for shape in shapes.single_port_shapes():
        out.append(('X', shape, 'plain'))
        out.append(('X', shape, 'output'))
    for shape in shapes.multi_port_shapes(2, reduced=True):
        out.append(('X', shape, 'plain'))
    for label, spec in special_worlds() + empty_glob_worlds() + \
            nested_glob_worlds():
        out.append(('S', label, spec))
    out.append(('S', 'store-entry', None))
    depth = BOUNDS[ctx.tier]['depth']
    for init_i, init in enumerate(INITS):
        for issuer in ('step', 'process'):
            hists, seen, trans = st.enumerate_histories(
                init, 'vars', depth, with_pairs=True,
                proc_issuer=(issuer == 'process'))
            for h in hists:
                for obs_ts in (1, 2, 'wait') + (
                        ('step',) if issuer == 'step' else ()):
                    out.append(('B', init_i, h, issuer, obs_ts))
        # compartments with their own process, flow steps and deriver,
        # all of them observed (paths are re-used by delete + generate)
        hists, seen, trans = st.enumerate_histories(
            init, 'full', depth, with_pairs=False, gen_kind='full')
        for h in hists:
            out.append(('B', init_i, h, 'step', 1, 'full'))
    # controllers inside the compartments that watch both containers while
    # they divide / delete / move themselves and their siblings
    out += [('agents',) + j for j in agents.jobs(
        2 if ctx.quick else 3, lite=True)]
    return out


def run(ctx):
    return ctx.map(run_job, jobs(ctx))


def replay(case):
    acc = fw.Acc()

    def tup(x):
        return tuple(tup(y) for y in x) if isinstance(x, (list, tuple)) \
            else x
    if case.get('family') == 'agents':
        agents.judge(tup(case['job']), acc, 'C07')
    elif case['part'] == 'X':
        run_x(('X', case['shape'], case['variant']), acc)
    elif case['part'] == 'S':
        if case.get('label') == 'store-entry':
            store_entry_cases(acc)
        for label, spec in special_worlds() + empty_glob_worlds() + \
                nested_glob_worlds():
            if label == case['label']:
                run_special(('S', label, spec), acc)
    else:
        run_b(('B', case['init'], tup(case['history']), case['issuer'],
               case['obs_ts'], case.get('kind', 'vars')), acc)
    return [v for exs in acc.viol_examples.values() for v in exs]


RULE += (
    ' Also: an observer with a glob nested in a glob while children are added / deleted at the inner level; Engine(store=..., initial_state=...) whose initial state adds children to a glob-observed store.')

RULE += (
    ' Observer mode wait: timestep 1.5 under a script of non-forcing run_for(1) calls - the observer waits across the calls while the structure changes and is shown the current projection when it runs.')

RULE += (
    ' Special worlds starstar-emptied: a "**" port over a glob store that another process (or step) empties and refills, and a glob port on the compartment that holds the observing process itself (a child that holds a process is shown as (process, topology)).')
