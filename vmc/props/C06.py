"""C06 - a port reads and writes the same store node, for every topology."""
import copy

from vmc import framework as fw
from vmc import shapes, worlds
from vmc.ref import resolve as rr

ID = 'C06'
LEVEL = 'exploration'
EXHAUSTIVE = True
RULE = (
    'grammar of ports schemas (leaf port, flat port with 1-2 variables, '
    'port nested two deep, glob ports over branch and leaf children) x '
    'grammar of well-formed topologies for each (tuples of length 0-2, '
    'leading ".." segments, _path dictionaries renaming none/one/all '
    'variables incl. ".." and deeper targets, _path-less dictionaries that '
    'list every variable, nested _path dictionaries) x process placed at '
    'depth 0, 1, 2; one port over the full grammar, two and three ports '
    'over a reduced grammar incl. several ports / variables on one node; '
    'plus worlds in which a wired store is deleted and re-created within '
    'one tick. '
    'Per shape: one read execution, one write execution per declared '
    'variable and one for all variables at once. Oracle: reference '
    'resolver written from the documentation; read == node value; write '
    'changes exactly the resolved nodes by exactly the returned deltas '
    '(full before/after diff). Distinct by (shape, written variable). '
    'Alias family: 3 ports (two on one store) x port order x one / two '
    'stores x depth x {fresh, shared between two ports, shared one level '
    'down} update dictionaries x {new, same} update object per call x 1 / '
    '3 steps; exactly the wired nodes change, by exactly one delta per '
    'returned update. Rewire family: a port or a single variable of a '
    'port is rewired with Store.connect() (target given as store, '
    'relative path, absolute path) before the engine is built or after '
    'one tick; reads and writes follow the new wiring.')
ASSUMPTIONS = [
    'topologies that omit a declared port, or _path-less dictionaries that '
    'list only some variables, are outside the well-formed alphabet',
    'shapes in which one node would be both a variable and a store are '
    'skipped as ill-formed',
]
BOUNDS = {'quick': {'ports': 2}, 'thorough': {'ports': 3}}


def put(tree, path, value):
    for k in path[:-1]:
        tree = tree.setdefault(k, {})
    tree[path[-1]] = value


def plan(shape):
    """Everything the oracle needs, from the spec alone."""
    schema, topology = shapes.build(shape)
    place = tuple(shape['place'])
    # glob stores and their children
    dummy = {}
    children = {}
    rests = {}
    rr._globs(schema, topology, place, _Everything(), children, rests)
    if any(any(r != rs[0] for r in rs) for rs in rests.values()):
        # two glob ports over one store that rename its children's
        # variables differently: a store has ONE sub-topology
        return None
    children = {k: list(shapes.GLOB_CHILDREN) for k in children}
    mapping = rr.resolve(schema, topology, place, children)
    if any(n is None for n in mapping.values()):
        return None
    nodes = sorted(set(mapping.values()))
    for a in nodes:
        for b in nodes:
            if a != b and b[:len(a)] == a:
                return None           # a variable that is also a store
    proc_path = place + ('proc',)
    if any(n[:len(proc_path)] == proc_path or proc_path[:len(n)] == n
           for n in nodes):
        return None
    value = {n: 100 + i for i, n in enumerate(nodes)}
    return schema, topology, place, mapping, nodes, value


class _Everything(dict):
    """A snapshot stand-in in which every path exists (for _globs)."""
    def __contains__(self, k):
        return True

    def __getitem__(self, k):
        return self

    def items(self):
        return []


def world(shape, pl, update):
    schema, topology, place, mapping, nodes, value = pl
    state = {}
    for n, v in value.items():
        put(state, n, v)
    processes, topo = {}, {}
    put(processes, place + ('proc',),
        {'cls': 'P', 'pid': 'proc', 'ts': 1, 'schema': schema,
         'update': {'$lit': update}})
    put(topo, place + ('proc',), copy.deepcopy(topology))
    return {'processes': processes, 'topology': topo, 'state': state,
            'script': [('update', 1)]}


def flat_values(tree, path=()):
    out = {}
    if isinstance(tree, dict):
        for k, v in tree.items():
            out.update(flat_values(v, path + (k,)))
    elif tree != '<process>':
        out[path] = tree
    return out


def check_shape(shape, acc):
    pl = plan(shape)
    if pl is None:
        acc.counters['ill_formed_skipped'] += 1
        return
    schema, topology, place, mapping, nodes, value = pl
    var_paths = sorted(mapping)
    deltas = {vp: 1000 * (2 ** i) for i, vp in enumerate(var_paths)}
    runs = [('read', [])] + [(f'write:{vp}', [vp]) for vp in var_paths]
    if len(var_paths) > 1:
        runs.append(('write:all', list(var_paths)))
    for label, written in runs:
        case = {'shape': shape, 'run': label}
        V = lambda rule, fp, msg: acc.violate(  # noqa
            fw.violation(rule, fp, msg, case))
        update = {}
        for vp in written:
            put(update, vp, deltas[vp])
        spec = world(shape, pl, update)
        ex = worlds.execute(spec)
        kinds = '+'.join(k for _, k, _ in shape['ports'])
        acc.case(key=(fw.jdump(shape), label),
                 outcome=f'{kinds}:{"read" if not written else "write"}',
                 nontrivial=True)
        if ex.error:
            V('C06.crash', f'{kinds}:{type(ex.error[2]).__name__}',
              f'{label}: unexpected {ex.error[2]!r} for schema {schema} '
              f'topology {topology} at {place}')
            return
        inv = [ev for ev in ex.trace if ev[0] == 'invoke']
        states = inv[0][6]
        # (i) read: what the process sees is the value of the resolved node
        got = flat_values(states)
        want = {vp: value[n] for vp, n in mapping.items()}
        if got != want:
            bad = sorted(set(got) ^ set(want)) or [
                vp for vp in want if got[vp] != want[vp]]
            V('C06.read', 'reads-other-node' if set(got) == set(want)
              else 'view-shape-differs',
              f'schema {schema} topology {topology} at {place}: the '
              f'process reads {got}, the resolved nodes hold {want} '
              f'(first difference {bad[0]})')
            return
        # (ii)/(iii) write: exactly the resolved nodes change
        rows = worlds.history_rows(ex)
        before = flat_values(rows[0][2])
        after = flat_values(worlds.probes.pure(
            ex.engine.state.get_value()))
        expect = dict(before)
        for vp in written:
            expect[mapping[vp]] = expect[mapping[vp]] + deltas[vp]
        if after != expect:
            diff = {p: (after.get(p), expect.get(p))
                    for p in set(after) | set(expect)
                    if after.get(p) != expect.get(p)}
            shared = len(set(mapping[vp] for vp in written)) < len(written)
            fp = 'lost-update-on-shared-node' if shared and all(
                p in [mapping[vp] for vp in written] for p in diff) else (
                'writes-other-node')
            V('C06.write', fp,
              f'schema {schema} topology {topology} at {place}, update '
              f'{update}: nodes (got, expected) {diff}')
            return
        if len(acc.samples) < 3 and label == 'write:all' and \
                len(var_paths) >= 3:
            acc.sample({'schema': schema, 'topology': topology,
                        'place': place,
                        'resolved': {str(k): v for k, v in mapping.items()},
                        'update': update})


def all_shapes(ctx):
    out = list(shapes.single_port_shapes())
    out += list(shapes.multi_port_shapes(2, reduced=False))
    if not ctx.quick:
        out += list(shapes.multi_port_shapes(3))
        out += list(shapes.multi_port_shapes(3, reduced=False))
    else:
        out += list(shapes.multi_port_shapes(3))[::7]
    return out


def replaced_store_worlds(acc):
    """A store the process is wired to is deleted and re-created within
    one tick by two other processes: the process must read the node its
    updates go to (the new one)."""
    from vmc.props import C07
    for label, spec in C07.special_worlds():
        if not label.startswith('replace-store'):
            continue
        case = {'shape': None, 'run': label}
        ex = worlds.execute(spec)
        acc.case(key=('replace', label), outcome='replace-store')
        if ex.error:
            acc.violate(fw.violation(
                'C06.crash', f'replace:{type(ex.error[2]).__name__}',
                f'{label}: unexpected {ex.error[2]!r}', case))
            continue
        C07.check_trace(
            ex, 'obs', spec['processes']['obs']['schema'],
            spec['topology']['obs'], (),
            lambda rule, fp, msg: acc.violate(fw.violation(
                'C06.read', 'reads-a-node-other-than-the-one-it-writes',
                msg, case)))
        # every returned +1 lands on the node that is in the hierarchy
        rows = worlds.history_rows(ex)
        vals = [r[2]['X']['a']['v'] for r in rows]
        for before, after in zip(vals, vals[1:]):
            if after not in (before + 1, 77):
                acc.violate(fw.violation(
                    'C06.write', 'update-missed-the-wired-node',
                    f'{label}: X/a/v went {vals}', case))
                break


# ----------------------------------------------------------------------
# update objects shared between ports / reused between invocations

ALIAS_PORTS = ('p0', 'p1', 'p2')


def alias_jobs():
    import itertools
    out = []
    for order in itertools.permutations(ALIAS_PORTS):
        for wiring in ('two-stores', 'one-store'):
            for depth in (0, 1):
                for share in ('none', 'port', 'sub'):
                    if share == 'sub' and depth == 0:
                        continue
                    for reuse in (False, True):
                        for steps in (1, 3):
                            out.append(('alias', order, wiring, depth,
                                        share, reuse, steps))
    return out


def alias_world(order, wiring, depth, share, reuse, steps):
    """p0 and p2 carry x (+1 each), p1 carries y (+2), p3 declares y at
    p2's store and is never updated.  two-stores: p0, p1 -> tank; p2, p3 ->
    reserve.  one-store: everything on tank (p0/x and p2/x are one node)."""
    def port(var):
        leafs = {var: shapes.leaf()}
        return {'sub': leafs} if depth else leafs

    def upd(var, delta, same=None):
        body = {var: delta}
        if same and share == 'sub':
            body = {'$same': same, 'value': body}
        body = {'sub': body} if depth else body
        if same and share == 'port':
            body = {'$same': same, 'value': body}
        return body
    schema = {'p0': port('x'), 'p1': port('y'), 'p2': port('x'),
              'p3': port('y')}
    other = ('reserve',) if wiring == 'two-stores' else ('tank',)
    wires = {'p0': ('tank',), 'p1': ('tank',), 'p2': other, 'p3': other}
    topology = {k: wires[k] for k in order}
    topology['p3'] = wires['p3']
    update = {'p0': upd('x', 1, 'D'), 'p1': upd('y', 2),
              'p2': upd('x', 1, 'D')}
    update = {k: update[k] for k in order}
    init = {'x': 10, 'y': 20}
    state = {'tank': {'sub': dict(init)} if depth else dict(init)}
    if wiring == 'two-stores':
        state['reserve'] = {'sub': {'x': 30, 'y': 40}} if depth else \
            {'x': 30, 'y': 40}
    return {'processes': {'proc': {
        'cls': 'P', 'pid': 'proc', 'ts': 1, 'schema': schema,
        'update': update, 'reuse_update': reuse}},
        'topology': {'proc': topology}, 'state': state,
        'script': [('update', steps)]}


def run_alias(job, acc):
    _, order, wiring, depth, share, reuse, steps = job
    case = {'shape': 'alias', 'job': job}
    V = lambda rule, fp, msg: acc.violate(  # noqa
        fw.violation(rule, fp, msg, case))
    spec = alias_world(order, wiring, depth, share, reuse, steps)
    ex = worlds.execute(spec)
    acc.case(key=job, outcome=f'alias:{wiring}:{share}:'
             f'{"reuse" if reuse else "fresh"}')
    label = f'{wiring}, depth {depth}, shared {share}, ' \
        f'{"reused" if reuse else "fresh"} update object, ports {order}'
    if ex.error:
        V('C06.crash', f'alias:{type(ex.error[2]).__name__}',
          f'{label}: unexpected {ex.error[2]!r}')
        return
    got = worlds.probes.pure(ex.engine.state.get_value())
    got.pop('proc', None)
    if wiring == 'two-stores':
        want = {'tank': {'x': 10 + steps, 'y': 20 + 2 * steps},
                'reserve': {'x': 30 + steps, 'y': 40}}
    else:
        want = {'tank': {'x': 10 + 2 * steps, 'y': 20 + 2 * steps}}
    if depth:
        want = {k: {'sub': v} for k, v in want.items()}
    if got != want:
        V('C06.write', f'alias:update-object-shared-{share}:'
          f'{"reused" if reuse else "fresh"}:{wiring}',
          f'{label}: after {steps} step(s) the hierarchy holds {got}, '
          f'expected {want}: an update reached a node its port is not '
          f'wired to, or was applied more than once')


# ----------------------------------------------------------------------
# a step of a LATER flow layer reads and writes, through its glob port,
# the nodes that exist after the earlier layer's structural update

def _bump(tpl, env):
    return {'cells': {k: {'v': 1} for k in env.states['cells']}}


worlds.probes.TEMPLATE_HOOKS['c06bump'] = _bump


def layered_jobs():
    return [('layered', op, phase) for op in ('add', 'delete', 'swap')
            for phase in (0, 1, 2)]


def run_layered(job, acc):
    _, op, phase = job
    case = {'shape': 'layered', 'job': job}
    acc.case(key=job, outcome='layered')
    leaf = shapes.leaf
    upd = {'add': {'cells': {'_add': [{'key': 'c1',
                                       'state': {'v': 10}}]}},
           'delete': {'cells': {'_delete': ['c0']}},
           'swap': {'cells': {'_add': [{'key': 'c1', 'state': {'v': 10}}],
                              '_delete': ['c0']}}}[op]
    kid = {'*': {'v': leaf(0)}}
    spec = {
        'processes': {'ticker': {
            'cls': 'P', 'pid': 'ticker', 'ts': 1, 'log_states': False,
            'schema': {'tk': {'n': leaf(0)}}, 'update': {'tk': {'n': 1}}}},
        'steps': {
            's1': {'cls': 'S', 'pid': 's1', 'log_states': False,
                   'schema': {'cells': dict(kid)},
                   'update': {'$n': {phase: upd}, '$else': {}}},
            's2': {'cls': 'S', 'pid': 's2', 'log_snapshot': True,
                   'schema': {'cells': dict(kid)},
                   'update': {'$call': 'c06bump'}}},
        'flow': {'s1': [], 's2': [('s1',)]},
        'topology': {'ticker': {'tk': ('tks',)},
                     's1': {'cells': ('cells',)},
                     's2': {'cells': ('cells',)}},
        'state': {'cells': {'c0': {'v': 5}, 'cx': {'v': 7}}},
        'script': [('update', 3)]}
    ex = worlds.execute(spec)
    if ex.error:
        acc.violate(fw.violation(
            'C06.crash', f'layered:{type(ex.error[2]).__name__}',
            f'{job}: unexpected {ex.error[2]!r}', case))
        return
    snap = None
    runs = 0
    for ev in ex.trace:
        if ev[0] == 'snap' and ev[2] == 's2':
            snap = ev[5]
        elif ev[0] == 'invoke' and ev[2] == 's2':
            runs += 1
            want = {k: {'v': v['v']} for k, v in snap['cells'].items()}
            if ev[6]['cells'] != want:
                acc.violate(fw.violation(
                    'C06.read', 'later-layer-step-reads-stale-nodes',
                    f'{job}: step s2 (depends on s1) run {ev[3]} reads '
                    f'{ev[6]["cells"]}, the hierarchy holds {want}', case))
                return
    # every child was bumped once per phase in which it existed when s2 ran
    tree = worlds.probes.pure(ex.engine.state.get_value())['cells']
    born = {'c0': 0, 'cx': 0, 'c1': phase}
    base = {'c0': 5, 'cx': 7, 'c1': 10}
    for k, node in tree.items():
        want = base[k] + (runs - born[k])
        if node['v'] != want:
            acc.violate(fw.violation(
                'C06.write', 'later-layer-step-write-lost',
                f'{job}: cells/{k}/v = {node["v"]}, expected {want} '
                f'({runs} phases, present from phase {born[k]})', case))
            return


# ----------------------------------------------------------------------
# nodes that start from ONE default array object: writing one of them
# through its port leaves the others alone

def shared_default_jobs():
    return [('shared-default', how, steps)
            for how in ('initial-state', 'add', 'two-ports')
            for steps in (1, 3)]


def run_shared_default(job, acc):
    import numpy as np
    _, how, steps = job
    case = {'shape': 'shared-default', 'job': job}
    acc.case(key=job, outcome='shared-default')
    field = {'_default': np.zeros(2), '_emit': True}
    if how == 'two-ports':
        schema = {'left': {'field': field}, 'right': {'field': field}}
        topology = {'left': ('left',), 'right': ('right',)}
        update = {'left': {'field': {'$lit': np.ones(2)}}}
        state = {}
        written, others = [('left', 'field')], [('right', 'field')]
    else:
        schema = {'cells': {'*': {'field': field}}}
        topology = {'cells': ('cells',)}
        update = {'cells': {'a': {'field': {'$lit': np.ones(2)}}}}
        state = {'cells': {'a': {}, 'b': {}}} if how == 'initial-state' \
            else {'cells': {'a': {}}}
        written = [('cells', 'a', 'field')]
        others = [('cells', 'b', 'field')]
    processes = {'proc': {'cls': 'P', 'pid': 'proc', 'ts': 1,
                          'log_states': False, 'schema': schema,
                          'update': update}}
    topo = {'proc': topology}
    if how == 'add':
        # b is added at run time, after a was written once
        processes['adder'] = {
            'cls': 'P', 'pid': 'adder', 'ts': 1, 'log_states': False,
            'schema': {'cells': {'*': {'field': field}}},
            'update': {'$n': {0: {'cells': {'_add': [
                {'key': 'b', 'state': {}}]}}}, '$else': {}}}
        topo['adder'] = {'cells': ('cells',)}
    ex = worlds.execute({'processes': processes, 'topology': topo,
                         'state': state,
                         'script': [('update', steps)]})
    if ex.error:
        acc.violate(fw.violation(
            'C06.crash', f'shared-default:{type(ex.error[2]).__name__}',
            f'{job}: unexpected {ex.error[2]!r}', case))
        return
    tree = ex.engine.state.get_value()
    for pth in written + others:
        node = tree
        for k in pth:
            node = node[k]
        want = float(steps) if pth in written else 0.0
        if not np.array_equal(np.asarray(node), np.full(2, want)):
            acc.violate(fw.violation(
                'C06.write', 'write-changes-node-sharing-the-default',
                f'{job}: only {written} was written ({steps} x [1, 1]); '
                f'{pth} holds {np.asarray(node).tolist()}, expected '
                f'{[want, want]}', case))
            return


# ----------------------------------------------------------------------
# a leaf port (the port IS the variable) that sets falsy values

FALSY = (0, False, '', [], {}, 0.0, None)


def run_leaf_falsy(job, acc):
    _, ti, place, vi = job
    kinds = {k: (mk, topos) for k, mk, topos in shapes.port_kinds()}
    topo, mind = kinds['leaf'][1][ti]
    val = FALSY[vi]
    case = {'shape': 'leaf-falsy', 'job': job}
    acc.case(key=job, outcome='leaf-falsy')
    node = rr.normalize(tuple(place) + tuple(topo))
    if node is None:
        return
    processes, topology, state = {}, {}, {}
    put(processes, tuple(place) + ('proc',), {
        'cls': 'P', 'pid': 'proc', 'ts': 1,
        'schema': {'flag': {'_default': 5, '_updater': 'set',
                            '_emit': True},
                   'other': {'n': shapes.leaf(1)}},
        'update': {'flag': {'$lit': val}, 'other': {'n': 1}}})
    put(topology, tuple(place) + ('proc',),
        {'flag': tuple(topo), 'other': ('elsewhere',)})
    put(state, node, 5)
    ex = worlds.execute({'processes': processes, 'topology': topology,
                         'state': state, 'script': [('update', 1)]})
    if ex.error:
        acc.violate(fw.violation(
            'C06.crash', f'leaf-falsy:{type(ex.error[2]).__name__}',
            f'{job}: unexpected {ex.error[2]!r}', case))
        return
    tree = worlds.probes.pure(ex.engine.state.get_value())
    got = rr.get_in(tree, node)
    if got != val or type(got) is not type(val):
        acc.violate(fw.violation(
            'C06.write', 'leaf-port-update-with-falsy-value-lost',
            f'leaf port wired to {topo} at {place} returned the update '
            f'{val!r} (updater set): the node holds {got!r}', case))


def _file_batch(current, update):
    """A user updater that files every update it is handed as ONE batch."""
    return list(current) + [update]


worlds.probes._register(worlds.probes.updater_registry, 'vmc_file_batch',
                        _file_batch)


def run_two_lists(job, acc):
    """Two ports of one process (a plain one and a _path-renamed one, or
    two plain ones) reach ONE variable and each returns a LIST: the
    variable's updater is called once per port with that port's list."""
    _, wiring, updater, place = job
    case = {'shape': 'two-lists', 'job': job}
    acc.case(key=job, outcome='two-lists')
    processes, topology = {}, {}
    var = {'_default': [], '_updater': updater, '_emit': True}
    put(processes, tuple(place) + ('proc',), {
        'cls': 'P', 'pid': 'proc', 'ts': 1,
        'schema': {'p0': {'x': dict(var)}, 'p1': {'y': dict(var)}},
        'update': {'p0': {'x': {'$lit': ['from a']}},
                   'p1': {'y': {'$lit': ['from b']}}}})
    topo = {'plain+renamed': {'p0': ('log',),
                              'p1': {'_path': ('log',), 'y': ('x',)}},
            'two-renamed': {'p0': {'_path': ('log',), 'x': ('z',)},
                            'p1': {'_path': ('log',), 'y': ('z',)}}}[wiring]
    put(topology, tuple(place) + ('proc',), topo)
    ex = worlds.execute({'processes': processes, 'topology': topology,
                         'state': {}, 'script': [('update', 1)]})
    if ex.error:
        acc.violate(fw.violation(
            'C06.crash', f'two-lists:{type(ex.error[2]).__name__}',
            f'{job}: unexpected {ex.error[2]!r}', case))
        return
    tree = worlds.probes.pure(ex.engine.state.get_value())
    leaf = 'x' if wiring == 'plain+renamed' else 'z'
    got = rr.get_in(tree, tuple(place) + ('log', leaf))
    if updater == 'set':
        ok = got in (['from a'], ['from b'])
        want = "['from a'] or ['from b']"
    elif updater == 'vmc_file_batch':
        ok = sorted(map(tuple, got or [])) == [('from a',), ('from b',)] \
            if isinstance(got, list) and all(
                isinstance(g, list) for g in got) else False
        want = "[['from a'], ['from b']] in either order"
    else:
        ok = sorted(got or []) == ['from a', 'from b']
        want = "['from a', 'from b'] in either order"
    if not ok:
        acc.violate(fw.violation(
            'C06.write', 'list-updates-of-two-ports-fused-or-lost',
            f'ports wired {wiring} at {place}, updater {updater}: each '
            f'port returned a one-element list for ONE variable; it holds '
            f'{got!r}, expected {want}', case))


def two_lists_jobs():
    return [('two-lists', w, u, tuple(pl))
            for w in ('plain+renamed', 'two-renamed')
            for u in ('set', 'vmc_file_batch', 'accumulate')
            for pl in shapes.PLACEMENTS]


def leaf_falsy_jobs():
    out = []
    kinds = {k: (mk, topos) for k, mk, topos in shapes.port_kinds()}
    for ti, (topo, mind) in enumerate(kinds['leaf'][1]):
        for place in shapes.PLACEMENTS:
            if len(place) >= mind:
                for vi in range(len(FALSY)):
                    out.append(('leaf-falsy', ti, tuple(place), vi))
    return out


# ----------------------------------------------------------------------
# ports rewired through the store API (Store.connect)

REWIRES = {
    'port-p0': [(('p0',), ('t',))],
    'port-p1': [(('p1',), ('t1',))],
    'var-a': [(('p0', 'a'), ('deep', 'u', 'x'))],
    'var-b': [(('p0', 'b'), ('t', 'b'))],
    'both-ports': [(('p0',), ('t',)), (('p1',), ('t1',))],
}


def rewire_jobs():
    out = []
    for name in REWIRES:
        for form in ('store', 'relative', 'absolute'):
            for when in ('pre', 'mid'):
                for place in ((), ('c',)):
                    out.append(('rewire', name, form, when, place))
    return out


def run_rewire(job, acc):
    from vivarium.core.store import generate_state
    _, name, form, when, place = job
    case = {'shape': 'rewire', 'job': job}
    V = lambda rule, fp, msg: acc.violate(  # noqa
        fw.violation(rule, fp, msg, case))
    acc.case(key=job, outcome=f'rewire:{name}:{form}:{when}')
    leaf = shapes.leaf
    proc = worlds.probes.Probe({
        'pid': 'proc', 'ts': 1,
        'schema': {'p0': {'a': leaf(0), 'b': leaf(0)},
                   'p1': {'c': leaf(0)}},
        'update': {'p0': {'a': 1, 'b': 10}, 'p1': {'c': 100}}})
    decl = worlds.probes.Probe({
        'pid': 'decl', 'ts': 1, 'log_states': False,
        'schema': {'t': {'a': leaf(0), 'b': leaf(0)},
                   't1': {'c': leaf(0)}, 'u': {'x': leaf(0)}},
        'update': {}})
    # a twin with the same wiring - given as THE SAME dictionary object -
    # is never rewired: it keeps reading and writing the old nodes
    twin = worlds.probes.Probe({
        'pid': 'twin', 'ts': 1, 'log_states': False,
        'schema': {'p0': {'a': leaf(0), 'b': leaf(0)},
                   'p1': {'c': leaf(0)}},
        'update': {'p0': {'a': 1, 'b': 10}, 'p1': {'c': 100}}})
    wiring = {'p0': ('s',), 'p1': ('s1',)}
    processes, topology, state = {}, {}, {}
    put(processes, place + ('proc',), proc)
    put(processes, place + ('twin',), twin)
    put(processes, place + ('decl',), decl)
    put(topology, place + ('proc',), wiring)
    put(topology, place + ('twin',), wiring)
    put(topology, place + ('decl',), {'t': ('t',), 't1': ('t1',),
                                       'u': ('deep', 'u')})
    values = {('s', 'a'): 1, ('s', 'b'): 2, ('s1', 'c'): 3,
              ('t', 'a'): 50, ('t', 'b'): 60, ('t1', 'c'): 70,
              ('deep', 'u', 'x'): 7}
    for n, v in values.items():
        put(state, place + n, v)
    wired = {('p0', 'a'): ('s', 'a'), ('p0', 'b'): ('s', 'b'),
             ('p1', 'c'): ('s1', 'c')}
    delta = {('p0', 'a'): 1, ('p0', 'b'): 10, ('p1', 'c'): 100}

    def rewire(root):
        node = root.get_path(place + ('proc',))
        for port_path, target in REWIRES[name]:
            if form == 'store':
                node.connect(port_path, root.get_path(place + target))
            elif form == 'relative':
                node.connect(port_path, target)
            else:
                node.connect(port_path, place + target, absolute=True)
            if len(port_path) == 1:
                for var in [v for v in wired if v[0] == port_path[0]]:
                    wired[var] = target + (var[1],)
            else:
                wired[port_path] = target

    twin_wired = dict(wired)

    def tick():
        for var, node in wired.items():
            values[node] += delta[var]
        for var, node in twin_wired.items():
            values[node] += delta[var]
    try:
        store = generate_state(processes, topology, state)
        if when == 'pre':
            rewire(store)
        worlds.probes.TRACE = trace = []
        eng = worlds.probes.MonitoredEngine(
            store=store, emitter={'type': 'vmc_probe'}, display_info=False)
        seen = []
        for k in range(2):
            if when == 'mid' and k == 1:
                rewire(eng.state)
            before = {var: values[node] for var, node in wired.items()}
            eng.update(1)
            tick()
            inv = [ev for ev in trace if ev[0] == 'invoke' and
                   ev[2] == 'proc'][-1]
            got = flat_values(inv[6])
            if got != before:
                V('C06.read', 'rewired-port-reads-other-node',
                  f'{job}: tick {k}: the process reads {got}, the nodes '
                  f'its ports are wired to hold {before}')
                return
        worlds.probes.TRACE = None
        tree = worlds.probes.pure(eng.state.get_value())
    except Exception as e:  # noqa
        worlds.probes.TRACE = None
        V('C06.crash', f'rewire:{type(e).__name__}',
          f'{job}: unexpected {e!r}')
        return
    here = tree
    for k in place:
        here = here[k]
    got = {n: v for n, v in flat_values(here).items()}
    if got != values:
        diff = {n: (got.get(n), values.get(n))
                for n in set(got) | set(values) if got.get(n) != values.get(n)}
        V('C06.write', 'rewired-port-writes-other-node',
          f'{job}: nodes (got, expected) {diff}')


def run_job(shape, acc):
    if isinstance(shape, tuple) and shape[0] == 'layered':
        run_layered(shape, acc)
        return
    if isinstance(shape, tuple) and shape[0] == 'shared-default':
        run_shared_default(shape, acc)
        return
    if isinstance(shape, tuple) and shape[0] == 'leaf-falsy':
        run_leaf_falsy(shape, acc)
        return
    if isinstance(shape, tuple) and shape[0] == 'two-lists':
        run_two_lists(shape, acc)
        return
    if isinstance(shape, tuple) and shape[0] == 'rewire':
        run_rewire(shape, acc)
        return
    if shape == 'replaced-store':
        replaced_store_worlds(acc)
        return
    if isinstance(shape, tuple) and shape[0] == 'alias':
        run_alias(shape, acc)
        return
    check_shape(shape, acc)


def run(ctx):
    return ctx.map(run_job, all_shapes(ctx) + ['replaced-store'] +
                   alias_jobs() + rewire_jobs() + leaf_falsy_jobs() +
                   shared_default_jobs() + layered_jobs() +
                   two_lists_jobs())


def replay(case):
    acc = fw.Acc()
    if case['shape'] == 'layered':
        run_layered(tuple(case['job']), acc)
    elif case['shape'] == 'shared-default':
        run_shared_default(tuple(case['job']), acc)
    elif case['shape'] == 'two-lists':
        j = case['job']
        run_two_lists((j[0], j[1], j[2], tuple(j[3])), acc)
    elif case['shape'] == 'leaf-falsy':
        j = case['job']
        run_leaf_falsy((j[0], j[1], tuple(j[2]), j[3]), acc)
    elif case['shape'] == 'rewire':
        j = case['job']
        run_rewire(tuple(j[:4]) + (tuple(j[4]),), acc)
    elif case['shape'] == 'alias':
        j = case['job']
        run_alias((j[0], tuple(j[1])) + tuple(j[2:]), acc)
    elif case['shape'] is None:
        replaced_store_worlds(acc)
    else:
        check_shape(case['shape'], acc)
    return [v for exs in acc.viol_examples.values() for v in exs]


RULE += (
    " Leaf-falsy family: a leaf port with the set updater returns 0, False, '', [], {}, 0.0, None for every leaf topology and placement. The rewire family includes a twin process given THE SAME wiring dictionary object, which must stay wired as it was.")

RULE += (
    ' Two-lists family: two ports of one process (plain + _path-renamed, or both renamed) reach ONE variable and each returns a one-element list, under set / accumulate / a user updater that files every update as one batch: the updater is called once per port with that port\'s list.')
