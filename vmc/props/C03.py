"""C03 - monotone clock, exact landing, termination, time grid."""
import itertools
from fractions import Fraction

from vmc import framework as fw
from vmc import sched, afamily, worlds
from vmc.props import C01

ID = 'C03'
LEVEL = 'model_checking'
RULE = (
    'S-family incl. all-quiet composites, steps-only composites and a '
    'composite whose only process deletes itself, scripts D^{<=k}.(F u '
    '{run_for(1)}) (so also never-forcing scripts); A-family with the '
    'UNRESTRICTED timestep/condition menus at every poll, <= bound '
    'deviations, AND explicit-state BFS over all answer sequences up to a '
    'number of choice points with scheduler-state merging; precision worlds (global_time_precision x decimal '
    'timesteps x run lengths x emit_step). Oracle: online clock monitor on '
    'every clock write (monotone, bounded by the call end, exact landing), '
    'lasso detector for non-termination, grid membership and coincidence '
    'of exact decimal times. Distinct by (world, choice sequence).')
ASSUMPTIONS = [
    'every assignment to Engine.global_time is observed through a property '
    'defined in a subclass (public attribute name only)',
    'non-termination is decided by lasso detection (3 identical scheduler '
    'states without progress) under a fixed answer policy, plus an '
    'iteration cap and a wall-clock watchdog as backstops',
    'an engine over a completely empty hierarchy cannot be constructed; '
    '"no processes" is realised as steps-only and self-deleting composites',
]
BOUNDS = {
    'quick': {'N': 2, 'script_prefix': 2, 'deviations': 2},
    'thorough': {'N': 3, 'script_prefix': 3, 'deviations': 3},
}
MONITORS = ('c03',)
FINALS = sched.F_CALLS + [('run_for', 1, False)]


def s_jobs(ctx):
    conds = ['always', 'never']
    pc = list(itertools.product(sched.T_ALL, conds))
    jobs = []
    k = 2 if ctx.quick else 3
    for n in (1, 2):
        for procs in itertools.product(pc, repeat=n):
            for sc in sched.scripts(k if n == 1 else 2 if ctx.quick else 2,
                                    finals=FINALS):
                jobs.append(('S', procs, sc, False))
    if not ctx.quick:
        for procs in itertools.product(pc, repeat=3):
            for sc in sched.scripts(1, finals=FINALS):
                jobs.append(('S', procs, sc, False))
    # the engine starts at a non-zero (dyadic) time
    small = list(itertools.product([0.75, 1, 2], conds))
    for procs in itertools.product(small, repeat=2):
        for sc in sched.scripts(1, finals=FINALS):
            jobs.append(('S', procs, sc, False, 10.5))
    for procs in small:
        for sc in sched.scripts(2, finals=FINALS):
            jobs.append(('S', (procs,), sc, False, 0.25))
    # a clock ~1e9 times larger than the timesteps
    jobs += C01.big_clock_jobs(1)
    return jobs


def special_worlds(ctx):
    """Worlds without (live) processes."""
    out = []
    step = {'cls': 'S', 'pid': 'st', 'schema': {
        'out': {'v': {'_default': 0, '_updater': 'set', '_emit': True}}},
        'update': {'out': {'v': 1}}}
    for sc in sched.scripts(2 if ctx.quick else 3, finals=FINALS):
        out.append({'steps': {'st': step}, 'flow': {'st': []},
                    'topology': {'st': {'out': ('o',)}},
                    'script': sc, 'family': 'X', 'kind': 'steps-only'})
    for k in (0, 1, 2):
        for ts in (0.5, 1, 2):
            suicidal = {
                'cls': 'P', 'pid': 'p0', 'ts': ts,
                'schema': {'self': {}, 'priv': {
                    'tok': dict(sched.TOK), 'num': dict(sched.NUM)}},
                'update': {'$n': {k: {'self': {'_delete': ['p0']},
                                      'priv': {'tok': '$tok', 'num': 1}}},
                           '$else': {'priv': {'tok': '$tok', 'num': 1}}}}
            for sc in sched.scripts(1, finals=FINALS):
                out.append({
                    'processes': {'comp': {'p0': suicidal}},
                    'topology': {'comp': {'p0': {
                        'self': (), 'priv': ('s',)}}},
                    'script': sc, 'family': 'X', 'kind': 'self-deleting'})
    return [('X', w) for w in out]


def precision_jobs(ctx):
    """(precision, timesteps, script, emit_step): all on the 10^-p grid."""
    jobs = []
    grid1 = ['0.1', '0.2', '0.3', '0.4', '0.5', '0.6', '0.7', '0.8', '0.9']
    scripts = [
        [('update', '0.5')], [('update', '1')], [('update', '1.2')],
        [('update', '1.8')],
        [('run_for', '0.5', False), ('update', '0.7')],
        [('run_for', '0.3', False), ('run_for', '0.3', False),
         ('update', '0.3')],
        [('update', '0.1'), ('update', '0.2'), ('update', '0.3')],
        [('update', '0.7'), ('update', '0.2'), ('run_for', '0.1', True)],
        [('run_for', '0.6', False), ('run_for', '0.7', True)],
    ]
    for prec in (1, 2, 5):
        tss = list(grid1) + (['0.25', '0.05', '0.15'] if prec >= 2 else [])
        combos = [(a,) for a in tss] + list(itertools.combinations(tss, 2))
        if not ctx.quick:
            combos += list(itertools.combinations(tss[:6], 3))
        elif prec != 1:
            combos = [c for c in combos if len(c) == 1 or
                      c[0] in ('0.1', '0.3', '0.25') or c[1] == '0.7']
        for combo in combos:
            for sc in scripts:
                for emit_step in ((1, 0.5) if (not ctx.quick or prec == 1)
                                  else (1,)):
                    jobs.append(('P', prec, combo, sc, emit_step))
                if len(combo) == 1:
                    # a top-level emitted variable that is NAMED 'time'
                    # (a clock port wired to ('time',)) accumulates the
                    # timesteps in floating point: the rows are still
                    # stamped with the engine's clock
                    jobs.append(('P', prec, combo, sc, 1, 'timevar'))
                    # the engine starts at a grid time t0 > 0: the first
                    # step may be longer than t0 itself (t + (f - t) != f
                    # in floating point when f > 2t)
                    for t0 in ('0.3', '0.1', '-1', '-0.4'):
                        jobs.append(('P', prec, combo, sc, 1, 't0:' + t0))
    return jobs


def run_special(job, acc):
    spec = job[1]
    ex = worlds.execute(spec, guard_factory=sched.lasso_guard)
    p = sched.Parsed(ex)
    sched.record_states(acc, p)
    acc.case(key=('X', spec['kind'], spec['script'],
                  fw.jdump(spec.get('processes'))),
             outcome=f'X:{spec["kind"]}:err='
                     f'{type(ex.error[2]).__name__ if ex.error else 0}')
    for v in sched.mon_c03_clock(spec, ex, p):
        acc.violate(v)


def precision_world(job):
    _, prec, combo, script, emit_step = job[:5]
    procs, topo = {}, {}
    for i, ts in enumerate(combo):
        pid = f'p{i}'
        procs[pid] = sched.probe_spec(pid, float(ts), 'always')
        topo[pid] = {'priv': (f's{i}',), 'shared': ('shared',)}
        if len(job) > 5 and job[5] == 'timevar' and i == 0:
            procs[pid]['schema']['tv'] = dict(sched.NUM)
            procs[pid]['update']['tv'] = '$ts'
            topo[pid]['tv'] = ('time',)
    sc = [(c[0], float(c[1])) + tuple(c[2:]) for c in script]
    eng = {'global_time_precision': prec, 'emit_step': emit_step}
    if len(job) > 5 and str(job[5]).startswith('t0:'):
        eng['initial_global_time'] = float(job[5][3:])
    return {'processes': procs, 'topology': topo, 'script': sc,
            'engine': eng, 'family': 'P', 'job': job}


def exact_timeline(combo, script, t0='0'):
    """Ideal timeline in exact decimal arithmetic (Fractions)."""
    out = {}
    windows, s = [], Fraction(t0)
    for c in script:
        e = s + Fraction(c[1])
        force = c[0] == 'update' or bool(c[2:] and c[2])
        windows.append((s, e, force))
        s = e
    for i, ts in enumerate(combo):
        f, e, seq = Fraction(ts), Fraction(t0), []
        for (s, E, force) in windows:
            while True:
                if e + f <= E:
                    e = e + f
                    seq.append(e)
                elif force and e < E:
                    e = E
                    seq.append(e)
                    break
                else:
                    break
        out[i] = seq
    return out, [w[1] for w in windows]


def run_precision(job, acc):
    spec = precision_world(job)
    _, prec, combo, script, emit_step = job[:5]
    ex = worlds.execute(spec, guard_factory=sched.lasso_guard)
    p = sched.Parsed(ex)
    sched.record_states(acc, p)
    viols = []
    V = lambda rule, fp, msg: viols.append(  # noqa
        fw.violation(rule, fp, msg, spec))
    if ex.error:
        viols += sched.mon_c03_clock(spec, ex, p)
    else:
        def on_grid(t):
            return t == round(t, prec)
        for c in p.clocks:
            if not on_grid(c['new']):
                V('C03.grid', 'clock-off-grid',
                  f'clock value {c["new"]!r} is not on the 10^-{prec} grid')
                break
        prev = None
        for c in p.clocks:
            if prev is not None and c['new'] < prev:
                V('C03.monotone', 'clock-decreased',
                  f'clock {prev!r} -> {c["new"]!r}')
                break
            prev = c['new']
        t0 = job[5][3:] if len(job) > 5 and str(job[5]).startswith(
            't0:') else '0'
        exact, ends = exact_timeline(combo, script, t0)
        by_exact = {}
        for i, ts in enumerate(combo):
            pid = f'p{i}'
            inv = sorted(p.invokes.get(pid, []), key=lambda r: r['n'])
            if len(inv) != len(exact[i]):
                V('C03.grid', 'interval-count-differs-from-exact-timeline',
                  f'{pid} (ts {ts}): {len(inv)} updates, exact decimal '
                  f'timeline has {len(exact[i])}')
                continue
            for rec, when in zip(inv, exact[i]):
                ap = p.applies.get((pid, rec['n']), [])
                for t, _ in ap:
                    if not on_grid(t):
                        V('C03.grid', 'event-off-grid',
                          f'{pid} update {rec["n"]} applied at {t!r}')
                    elif t != round(float(when), prec):
                        V('C03.grid', 'event-time-wrong',
                          f'{pid} update {rec["n"]} applied at {t!r}, '
                          f'exact time {when}')
                    by_exact.setdefault(when, set()).add(t)
                if not ap:
                    V('C03.grid', 'update-never-applied',
                      f'{pid} update {rec["n"]} due at {when} never applied')
        for when, floats in by_exact.items():
            if len(floats) != 1:
                V('C03.coincide', 'coincident-events-differ',
                  f'events at exact time {when} carry floats '
                  f'{sorted(floats)}')
        rows = worlds.history_rows(ex)
        keys = [t for t, _, _ in rows]
        for t in keys:
            if not on_grid(t):
                V('C03.grid', 'emit-key-off-grid', f'row key {t!r}')
        if len(set(keys)) != len(keys):
            V('C03.coincide', 'duplicate-row-key', f'row keys {keys}')
        if emit_step == 1:
            want = sorted({round(float(e), prec) for e in by_exact} |
                          {float(t0) if t0 != '0' else 0})
            if sorted(keys) != want:
                V('C03.coincide', 'rows-differ-from-batches',
                  f'row keys {keys} expected {want}')
        for (i, call, start, got), end in zip(ex.calls, ends):
            if got != round(float(end), prec):
                V('C03.landing', 'did-not-land-on-end',
                  f'call {i} {call} returned at {got!r}, exact end {end}')
                break
    acc.case(key=job, outcome=f'P:rows={len(worlds.history_rows(ex))}')
    if len(acc.samples) < 1:
        acc.sample({'family': 'P', 'job': job,
                    'row_keys': [t for t, _, _ in worlds.history_rows(ex)]})
    for v in viols:
        acc.violate(v)


def bfs_jobs(ctx):
    """Explicit-state search over ALL answer sequences (state merging)."""
    jobs = []
    scripts = afamily.A_SCRIPTS_QUICK if ctx.quick else \
        afamily.A_SCRIPTS_THOROUGH
    for n in (1, 2):
        for sc in scripts:
            # 200 choice points: the state space is exhausted long before
            jobs.append(('BFS', n, sc, False, False, 200))
            if n == 2 and not ctx.quick:
                jobs.append(('BFS', n, sc, False, True, 200))
    if not ctx.quick:
        for sc in scripts[:3]:
            jobs.append(('BFS', 3, sc, False, False, 200))
    return jobs


def run_job(job, acc):
    if job[0] == 'BFS':
        afamily.run_bfs_job(job, acc, MONITORS)
        return
    if job[0] == 'S':
        C01.run_s(job, acc, MONITORS)
    elif job[0] == 'X':
        run_special(job, acc)
    elif job[0] == 'P':
        run_precision(job, acc)
    else:
        afamily.run_a(job, acc, MONITORS)


def run(ctx):
    acc = ctx.map(run_job, bfs_jobs(ctx), chunk=1)
    ctx.map(run_job, afamily.a_jobs(ctx, restricted=False), acc=acc,
            chunk=1)
    jobs = s_jobs(ctx) + special_worlds(ctx) + precision_jobs(ctx)
    return ctx.map(run_job, jobs, acc=acc)


def replay(case):
    acc = fw.Acc()
    fam = case.get('family')
    if fam == 'S':
        C01.run_s(C01.s_job_of(case), acc, MONITORS)
    elif fam == 'X':
        run_special(('X', case), acc)
    elif fam == 'P':
        run_precision(case['job'], acc)
    else:
        afamily.replay(case, acc, MONITORS)
    return [v for exs in acc.viol_examples.values() for v in exs]


RULE += (
    " Precision worlds also with a top-level emitted variable NAMED 'time' that accumulates the timesteps in floating point: rows stay stamped with the engine's clock. K1 is recognised only when the lagging process was asked again in the very next scheduler pass.")

RULE += (
    ' Precision worlds also start at the negative grid times -1 and -0.4.')
