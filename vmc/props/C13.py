"""C13 - parallel processes are transparent and always shut down cleanly.
Real worker OS processes; every parallel subset x every stop point /
injected exception / removal tick."""
import copy
import gc
import itertools
import os
import signal
import sys
import time

import vivarium.core.process as vproc

from vmc import framework as fw
from vmc import probes, sched, worlds
from vmc import structural as st

ID = 'C13'
LEVEL = 'fault_enumeration'
RULE = (
    'real vivarium worker processes (forkserver with vivarium and the '
    'probe module preloaded). Worlds: two-timescale schedules, a flow-step '
    '/ deriver world, and structural worlds (delete / divide / move / '
    'generate / add at tick k, victim timestep 1 or 3 so that the worker '
    'is idle, due in the same batch or in flight; small and pipe-buffer-'
    'exceeding updates), structural histories of explorer B\'s menu '
    '(length 1, thorough 2) with all compartment processes in workers, '
    'x EVERY subset of processes/steps marked _parallel '
    'x stop points: end() after driver call k for every k, end() twice, '
    'engine dropped without end() + gc, exception injected at the j-th '
    'callback of a serial or a parallel process followed by end() in a '
    'finally. Oracle: rows, final state and published composite identical '
    'to the all-serial run; no "command still pending" error, also not '
    'from __del__ (sys.unraisablehook); end() returns without exception; '
    'every worker pid of the engine is gone within the watchdog. A case '
    'is one (world, parallel subset, stop point).')
ASSUMPTIONS = [
    'worker liveness is decided by pid existence (os.kill(pid, 0)) after a '
    'bounded wait; exit codes of forkserver grandchildren are not '
    'observable from the engine process',
    'ParallelProcess.__init__ is wrapped in the harness (not in /repo) to '
    'record worker pids',
    'K2 (_move of a busy process; for a worker the move also ends it) is a '
    'known finding',
]
BOUNDS = {'quick': {'ticks': 3}, 'thorough': {'ticks': 4}}

WORKERS = []       # (pid, ParallelProcess) of the engine under test
_orig_init = vproc.ParallelProcess.__init__


def _recording_init(self, *a, **kw):
    _orig_init(self, *a, **kw)
    try:
        WORKERS.append(self.multiprocess.pid)
    except Exception:  # noqa
        pass


vproc.ParallelProcess.__init__ = _recording_init


def alive(pid):
    try:
        os.kill(pid, 0)
    except ProcessLookupError:
        return False
    except PermissionError:
        return True
    # a zombie still answers kill(0): look at its state
    try:
        with open(f'/proc/{pid}/stat') as f:
            return f.read().split(') ')[-1].split()[0] != 'Z'
    except OSError:
        return False


def wait_gone(pids, timeout=5.0):
    t0 = time.time()
    left = [p for p in pids if alive(p)]
    while left and time.time() - t0 < timeout:
        time.sleep(0.01)
        left = [p for p in left if alive(p)]
    return left


class Hang(Exception):
    pass


def _alarm(signum, frame):
    raise Hang('watchdog')


# ----------------------------------------------------------------------
# worlds

def mark(spec_tree, names, path=()):
    """Set _parallel on the probe specs whose pid is in names."""
    for k, v in spec_tree.items():
        if isinstance(v, dict) and 'cls' in v:
            if v.get('pid') in names or '/'.join(path + (k,)) in names:
                v['_parallel'] = True
        elif isinstance(v, dict):
            mark(v, names, path + (k,))


def sched_world(procs, n_ticks):
    spec = sched.s_world(procs, [('update', 1)] * n_ticks)
    # a schema override (the _schema parameter) must reach the store
    # whether or not the process runs in a worker
    spec['processes']['p0']['_schema'] = {
        'priv': {'num': {'_updater': 'set', '_default': 40}}}
    return spec, [f'p{i}' for i in range(len(procs))]


# update values whose shape a transport layer might "normalise"
EDGE_VALUES = [{}, [], None, 0, '', {'a': {}}, {'a': {'b': {}}}, (),
               {'_value': {}, '_updater': 'set'}, False, {'k': 0}]


def values_world(i, j, as_step):
    """One process (or step) whose 'set' variables receive two values of
    EDGE_VALUES in turn - as a leaf update and nested one level down."""
    box = {'_default': {'k': 1}, '_updater': 'set', '_emit': True}
    seq = {n: {'port': {'box': {'$lit': EDGE_VALUES[v]},
                        'deep': {'box': {'$lit': EDGE_VALUES[v]}},
                        'n': 1}}
           for n, v in ((0, i), (1, j))}
    if as_step:
        seq = {n + 1: u for n, u in seq.items()}
    probe = {'cls': 'S' if as_step else 'P', 'pid': 'p', 'ts': 1,
             'log_states': False,
             'schema': {'port': {'box': dict(box),
                                 'deep': {'box': dict(box)},
                                 'n': {'_default': 0, '_emit': True}}},
             'update': {'$n': seq, '$else': {'port': {'n': 1}}}}
    spec = {'processes': {'tick': {
        'cls': 'P', 'pid': 'tick', 'ts': 1, 'log_states': False,
        'schema': {'tk': {'n': {'_default': 0, '_emit': True}}},
        'update': {'tk': {'n': 1}}}},
        'steps': {}, 'flow': {},
        'topology': {'tick': {'tk': ('tks',)}, 'p': {'port': ('store',)}},
        'script': [('update', 1)] * 3}
    if as_step:
        spec['steps']['p'] = probe
        spec['flow']['p'] = []
    else:
        spec['processes']['p'] = probe
    return spec, ['p']


def steps_world(n_ticks):
    leaf = {'_default': 0, '_emit': True}
    setleaf = {'_default': 0, '_updater': 'set', '_emit': True}
    spec = {
        'processes': {'p': {'cls': 'P', 'pid': 'p', 'ts': 1,
                            'log_states': False,
                            'schema': {'port': {'x': dict(leaf)}},
                            'update': {'port': {'x': 1}}}},
        'steps': {
            'w': {'cls': 'S', 'pid': 'w', 'log_states': False,
                  'schema': {'port': {'x': dict(leaf)},
                             'out': {'z': dict(setleaf)}},
                  'update': {'out': {'z': {'$state': ('port', 'x')}}}},
            'd': {'cls': 'S', 'pid': 'd', 'log_states': False,
                  'schema': {'out': {'z': dict(setleaf),
                                     'after': dict(setleaf)}},
                  'update': {'out': {'after': {'$state': ('out', 'z')}}}},
            'z0': {'cls': 'S', 'pid': 'z0', 'log_states': False,
                   'schema': {'port': {'x': dict(leaf)},
                              'out': {'drv': dict(setleaf)}},
                   'update': {'out': {'drv': {'$state': ('port', 'x')}}}}},
        'flow': {'w': [], 'd': [('w',)]},
        'topology': {'p': {'port': ('s',)},
                     'w': {'port': ('s',), 'out': ('o',)},
                     'd': {'out': ('o',)},
                     'z0': {'port': ('s',), 'out': ('o',)}},
        'script': [('update', 1)] * n_ticks}
    return spec, ['p', 'w', 'd', 'z0']


def struct_world(op, tick, ts, parallel_inner, payload, n_ticks,
                 issuer='process', op_first=False, multi=False):
    """One structural operation at ``tick`` against compartments whose
    inner process (timestep ts) runs in a worker or serially."""
    name = op[0]
    c = 'X'
    inner = {'cls': 'P', 'pid': 'proc', 'ts': ts, 'log_states': False,
             'payload': payload,
             'schema': {'in': {'v': dict(st.VAR), 'w': dict(st.SETVAR),
                               'blob': {'_default': '', '_updater': 'set',
                                        '_emit': False}}},
             'update': {'in': {'v': 1, 'blob': '$big'}} if payload
             else {'in': {'v': 1}}}
    if parallel_inner is True:
        inner['_parallel'] = True

    def comp():
        c_ = {'proc': copy.deepcopy(inner)}
        if multi:
            # three workers in one compartment, one of them nested
            for name in ('proc2',):
                c_[name] = dict(copy.deepcopy(inner), pid=name, ts=1)
            c_['org'] = {'inner': dict(copy.deepcopy(inner), pid='inner',
                                       ts=1)}
        return c_
    topo_inner = {'proc': {'in': ()}}
    if multi:
        topo_inner['proc2'] = {'in': ()}
        topo_inner['org'] = {'inner': {'in': ('..',)}}
    if name == 'del':
        upd = {c: {'_delete': [op[2]]}}
    elif name == 'add':
        upd = {c: {'_add': [{'key': op[2], 'state': {'v': 5}}]}}
    elif name == 'gen':
        upd = {c: {'_generate': [{
            'key': op[2], 'processes': {'$probes': comp()},
            'topology': copy.deepcopy(topo_inner),
            'initial_state': {'v': 7}}]}}
    elif name == 'div':
        upd = {c: {'_divide': {'mother': op[2], 'daughters': [
            {'key': op[2] + i, 'processes': {'$probes': comp()},
             'topology': copy.deepcopy(topo_inner)} for i in '01']}}}
    elif name == 'mov':
        upd = {c: {'_move': [{'source': (op[2],), 'target': 'Y'}]}}
    elif name == 'divcopy':
        # daughters copy the mother's processes (no 'processes' key)
        upd = {c: {'_divide': {'mother': op[2], 'daughters': [
            {'key': op[2] + i} for i in '01']}}}
    elif name == 'gen2':
        # a compartment with two processes that both 'set' one variable:
        # which one wins must not depend on who runs in a worker
        def q(pid):
            d = {'cls': 'P', 'pid': pid, 'ts': ts, 'log_states': False,
                 'schema': {'in': {'owner': {'_default': '',
                                             '_updater': 'set',
                                             '_emit': True}}},
                 'update': {'in': {'owner': pid}}}
            if pid in (parallel_inner if isinstance(
                    parallel_inner, tuple) else ()):
                d['_parallel'] = True
            return d
        upd = {c: {'_generate': [{
            'key': op[2],
            'processes': {'$probes': {'q1': q('q1'), 'q2': q('q2')}},
            'topology': {'q1': {'in': ()}, 'q2': {'in': ()}},
            'initial_state': {}}]}}
    elif name == 'genstep':
        # a compartment with a STEP that has private state (its run
        # counter) is generated, and moved two ticks later: the step goes
        # on counting, in a worker as well as serially
        cnt = {'cls': 'S', 'pid': 'cnt', 'log_states': False,
               'schema': {'in': {'runs': {'_default': None,
                                          '_updater': 'set',
                                          '_emit': True}}},
               'update': {'in': {'runs': '$tokval'}}}
        if parallel_inner is True:
            cnt['_parallel'] = True
        keep = {'cls': 'P', 'pid': 'keep', 'ts': 1, 'log_states': False,
                'schema': {'in': {'v': dict(st.VAR)}},
                'update': {'in': {'v': 1}}}
        upd = {c: {'_generate': [{
            'key': op[2], 'processes': {'$probes': {'keep': keep}},
            'steps': {'$probes': {'cnt': cnt}}, 'flow': {'cnt': []},
            'topology': {'keep': {'in': ()}, 'cnt': {'in': ()}},
            'initial_state': {'v': 7}}]}}
    else:
        raise ValueError(op)
    n = tick if issuer == 'process' else tick + 1
    script = {n: upd}
    if name == 'genstep':
        script[n + 2] = {c: {'_move': [{'source': (op[2],),
                                        'target': 'Y'}]}}
    op_spec = {'cls': 'P' if issuer == 'process' else 'S', 'pid': 'op',
               'ts': 1, 'log_states': False,
               'schema': {cc: {'*': {'v': dict(st.VAR),
                                     'w': dict(st.SETVAR)}}
                          for cc in ('X', 'Y')},
               'update': {'$n': script, '$else': {}}}
    spec = {
        'processes': {'X': {'a': comp(), 'b': comp()},
                      'ticker': {'cls': 'P', 'pid': 'ticker', 'ts': 1,
                                 'log_states': False,
                                 'schema': {'tk': {'n': dict(st.VAR)}},
                                 'update': {'tk': {'n': 1}}}},
        'steps': {}, 'flow': {},
        'topology': {'X': {'a': copy.deepcopy(topo_inner),
                           'b': copy.deepcopy(topo_inner)},
                     'ticker': {'tk': ('tks',)},
                     'op': {'X': ('X',), 'Y': ('Y',)}},
        'state': {'X': {'a': {'v': 10}, 'b': {'v': 20}}},
        'script': [('update', n_ticks)]}
    if issuer == 'process':
        if op_first:
            spec['processes'] = dict([('op', op_spec)] + list(
                spec['processes'].items()))
        else:
            spec['processes']['op'] = op_spec
    else:
        spec['steps']['op'] = op_spec
        spec['flow']['op'] = []
    return spec


# ----------------------------------------------------------------------
# running one case

def run_world(spec, stop, watchdog=30.0):
    """Execute with a stop point.

    stop: ('end', k)      end() after driver call k (0 = after construction)
          ('end2', k)     the same, end() twice
          ('drop', k)     drop the engine without end(), gc.collect()
          ('full',)       run everything, then end()
    Returns dict(rows, state, published, error, end_error, unraisable,
                 leaked, hang)
    """
    del WORKERS[:]
    gc.collect()
    gc.disable()
    unraisable = []
    old_hook = sys.unraisablehook
    sys.unraisablehook = lambda u: unraisable.append(
        f'{type(u.exc_value).__name__}: {u.exc_value}')
    old = signal.signal(signal.SIGALRM, _alarm)
    signal.setitimer(signal.ITIMER_REAL, watchdog)
    res = {'rows': None, 'state': None, 'published': None, 'error': None,
           'end_error': None, 'hang': False, 'leaked': []}
    eng = None
    try:
        try:
            eng = worlds.build_engine(spec)
            script = spec.get('script', [])
            upto = len(script) if stop[0] == 'full' else stop[1]
            for call in script[:upto]:
                if call[0] == 'update':
                    eng.update(call[1])
                else:
                    eng.run_for(call[1], force_complete=bool(call[2]))
        except Hang:
            raise
        except BaseException as e:  # noqa
            res['error'] = e
        if eng is not None:
            res['rows'] = [(t, fw.jdump(_norm(d)))
                           for t, d, s in _rows(eng)]
            try:
                res['state'] = fw.jdump(_norm(probes.pure(
                    eng.state.get_value())))
                res['published'] = fw.jdump(_shape({
                    'processes': eng.processes, 'steps': eng.steps,
                    'flow': eng.flow, 'topology': eng.topology}))
            except Exception as e:  # noqa
                res['state'] = f'<{type(e).__name__}>'
        try:
            if stop[0] == 'drop':
                eng = None
                probes.ENGINE = None
                gc.collect()
            elif eng is not None:
                eng.end()
                if stop[0] == 'end2':
                    eng.end()
        except Hang:
            raise
        except BaseException as e:  # noqa
            res['end_error'] = e
        pids = list(WORKERS)
        if stop[0] != 'drop' and eng is not None:
            # every worker - also those of compartments deleted or divided
            # away during the run - is gone once end() has returned, while
            # the engine object is still alive (no help from the garbage
            # collector, which is switched off during the run)
            res['leaked'] = wait_gone(pids, 5.0)
        eng = None
        probes.ENGINE = None
        gc.collect()
        if not res['leaked']:
            res['leaked'] = wait_gone(pids, 5.0)
        res['n_workers'] = len(pids)
    except Hang:
        res['hang'] = True
        res['n_workers'] = len(WORKERS)
        for pid in list(WORKERS):
            try:
                os.kill(pid, signal.SIGKILL)
            except OSError:
                pass
    finally:
        signal.setitimer(signal.ITIMER_REAL, 0)
        signal.signal(signal.SIGALRM, old)
        sys.unraisablehook = old_hook
        gc.enable()
        # never leave stray workers behind
        for pid in res.get('leaked', []):
            try:
                os.kill(pid, signal.SIGKILL)
            except OSError:
                pass
    res['unraisable'] = unraisable
    return res


def _rows(eng):
    out = []
    for r in eng.emitter.records:
        if r['table'] == 'history':
            d = dict(r['data'])
            t = d.pop('time')
            out.append((t, d, None))
    return out


def _norm(v):
    if isinstance(v, dict):
        return {k: _norm(x) for k, x in sorted(v.items())}
    if isinstance(v, tuple):
        return sorted(map(str, v))
    return v


def _shape(tree):
    from vivarium.core.process import Process
    if isinstance(tree, dict):
        return {k: _shape(v) for k, v in tree.items()}
    if isinstance(tree, Process):
        return 'process'
    if isinstance(tree, (list, tuple)):
        return [_shape(v) for v in tree]
    return tree


def judge(case, serial, par, acc, expect_error=None):
    V = lambda rule, fp, msg: acc.violate(  # noqa
        fw.violation(rule, fp, msg, case))
    tag = case['tag']
    if par['hang']:
        V('C13.shutdown', f'hang:{tag}',
          f'{case}: did not finish within the watchdog')
        return
    pend = [u for u in par['unraisable'] if 'pending' in u]
    flags = case.get('flags', {})
    divcopy = tag.startswith('struct:divcopy') or flags.get('divcopy')
    busy_move = (tag.startswith('struct:mov:') and (
        ':due' in tag or ':inflight' in tag)) or flags.get('busy_move')
    if divcopy and par['error'] is not None and (
            'ickl' in str(par['error'])
            or "command ('is_step'" in str(par['error'])) \
            and serial['error'] is None and not par['leaked'] \
            and par['end_error'] is None:
        # copying a parallel process never works (K8): TypeError from
        # deepcopy when the worker is idle, 'still pending' from the
        # is_step query when it is busy
        V('C13.transparent', 'divide-copies-a-parallel-process',
          f'{case}: {par["error"]!r}'[:400])
        return
    for which in ('error', 'end_error'):
        e = par[which]
        if e is not None and 'still pending' in str(e):
            if busy_move:
                V('C13.pending', 'still-pending-after-move-of-busy-process',
                  f'{case}: {e!r}'[:500])
                return
            V('C13.pending', f'still-pending:{which}:{tag}',
              f'{case}: {e!r}'[:500])
            return
    if pend:
        V('C13.pending', f'still-pending:__del__:{tag}',
          f'{case}: unraisable {pend[0]}'[:500])
        return
    if par['end_error'] is not None:
        V('C13.shutdown', f'end-raises-{type(par["end_error"]).__name__}:'
          f'{tag}', f'{case}: end() raised {par["end_error"]!r}'[:500])
        return
    if par['leaked']:
        V('C13.shutdown', f'worker-not-reaped:{tag}',
          f'{case}: worker pids {par["leaked"]} still alive after '
          f'end()/drop')
        return
    if expect_error is not None:
        if par['error'] is None:
            V('C13.fault', f'injected-fault-swallowed:{tag}',
              f'{case}: the injected exception did not propagate')
        return
    if par['error'] is not None and serial['error'] is None:
        if tag.startswith('struct:divcopy') and isinstance(
                par['error'], TypeError) and 'ickl' in str(par['error']):
            V('C13.transparent', 'divide-copies-a-parallel-process',
              f'{case}: {par["error"]!r}'[:400])
            return
        V('C13.transparent', f'parallel-run-raises-'
          f'{type(par["error"]).__name__}:{tag}',
          f'{case}: parallel run raised {par["error"]!r}, the serial run '
          f'did not'[:600])
        return
    if serial['error'] is not None:
        return     # the world itself fails serially: not C13's subject
    for part in ('rows', 'state', 'published'):
        if par[part] != serial[part]:
            diff = ''
            if part == 'rows':
                diff = next(((a, b) for a, b in itertools.zip_longest(
                    serial['rows'], par['rows']) if a != b), '')
            V('C13.transparent', f'{part}-differ:{tag}',
              f'{case}: {part} differ between the serial and the parallel '
              f'run {str(diff)[:300]}')
            return


def _parallel_tree(tree):
    for k, v in tree.items():
        if isinstance(v, dict) and 'cls' in v:
            if v.get('pid') == 'proc':
                v['_parallel'] = True
        elif isinstance(v, dict):
            _parallel_tree(v)


def _parallel_template(tpl):
    if isinstance(tpl, dict):
        if '$probes' in tpl:
            _parallel_tree(tpl['$probes'])
        else:
            for v in tpl.values():
                _parallel_template(v)
    elif isinstance(tpl, list):
        for v in tpl:
            _parallel_template(v)


def hist_world(history, issuer, ts_pair, parallel):
    """A C10 world (compartments with an inner process; operator issuing
    one structural operation per tick) with the inner processes - also the
    generated ones - run in workers."""
    from vmc.props import C10
    spec = C10.world(C10.INITS[0], history, issuer, 'proc',
                     {'a': ts_pair[0], 'b': ts_pair[1]}, False,
                     len(history) + 3)
    spec.pop('entry', None)
    if parallel:
        _parallel_tree(spec['processes'])
        where = spec['steps'] if issuer == 'step' else spec['processes']
        _parallel_template(where['op']['update'])
    return spec


def subsets(names):
    out = []
    for k in range(1, len(names) + 1):
        out += [tuple(c) for c in itertools.combinations(names, k)]
    return out


_QUIET = []


def run_api(acc):
    """A process wrapped in a worker answers the Process interface like
    the process itself - also after a schema override reached it."""
    from vivarium.core.process import ParallelProcess
    case = {'job': ('api',), 'tag': 'api'}
    acc.case(key=('api',), outcome='api')

    def mk():
        return probes.Probe({
            'pid': 'p', 'ts': 1, 'log_states': False,
            'schema': {'pool': {'level': {'_default': 10.0, '_emit': True},
                                'salt': {'_default': 0.5}}},
            'update': {}, 'init': {'pool': {'level': 7.0}}})
    override = {'pool': {'salt': {'_default': 3.0, '_updater': 'set'}}}
    serial = mk()
    wrapped = ParallelProcess(mk())
    try:
        answers = []
        for proc in (serial, wrapped):
            proc.merge_overrides(copy.deepcopy(override))
            answers.append({
                'get_schema': proc.get_schema(),
                'schema_override': proc.schema_override,
                'default_state': proc.default_state(),
                'initial_state': proc.initial_state(),
                'is_step': proc.is_step(),
                'name': proc.name})
    except Exception as e:  # noqa
        acc.violate(fw.violation(
            'C13.crash', f'api:{type(e).__name__}', f'{e!r}', case))
        return
    finally:
        try:
            wrapped.end()
        except Exception:  # noqa
            pass
    for key in answers[0]:
        if fw.jdump(_norm(answers[0][key])) != fw.jdump(
                _norm(answers[1][key])):
            acc.violate(fw.violation(
                'C13.transparent', f'api-differs:{key}',
                f'after merge_overrides({override}) {key} of the process '
                f'is {answers[0][key]}, of the process in a worker '
                f'{answers[1][key]}', case))
            return


def run_job(job, acc):
    if job[0] == 'api':
        run_api(acc)
        return
    if not _QUIET:
        # workers that die from an injected fault print a traceback; the
        # fork server (and so every worker) inherits this process's stderr
        _QUIET.append(True)
        try:
            os.dup2(os.open(os.devnull, os.O_WRONLY), 2)
        except OSError:
            pass
    kind = job[0]
    if kind == 'sched':
        _, procs, n_ticks, par, stop = job
        spec, names = sched_world(procs, n_ticks)
        tag = f'sched:{stop[0]}'
    elif kind == 'adaptive':
        # p1's timestep depends on a variable that p0 changes
        _, n_ticks, par, stop = job
        spec, names = sched_world(((1, 'always'), (1, 'always')), n_ticks)
        spec['processes']['p1']['ts'] = {'$even_odd': ('shared', 'num')}
        tag = f'adaptive:{stop[0]}'
    elif kind == 'profile':
        # Engine(profile=True): the worker hands its profile to the parent
        # when it is stopped - also when the profile is far larger than a
        # pipe buffer (a process that called thousands of functions)
        _, n_funcs, par, stop = job
        spec, names = sched_world(((1, 'always'), (2, 'always')), 2)
        spec['engine'] = dict(spec.get('engine') or {}, profile=True)
        spec['processes']['p1']['call_functions'] = n_funcs
        tag = f'profile:{stop[0]}'
    elif kind == 'steps':
        _, n_ticks, par, stop = job
        spec, names = steps_world(n_ticks)
        tag = f'steps:{stop[0]}'
    elif kind == 'values':
        _, i, j, as_step = job
        spec, names = values_world(i, j, as_step)
        par, stop = ('p',), ('full',)
        tag = 'values:' + ('step' if as_step else 'process')
    elif kind == 'hist':
        _, history, issuer, ts_pair = job
        spec = hist_world(history, issuer, ts_pair, False)
        par = ('inner',)
        stop = ('full',)
        names_ = '+'.join(o[0] for o in history)
        tag = 'hist:' + names_
        flags = {'divcopy': any(o[0] == 'div' for o in history),
                 'busy_move': any(o[0] in ('mov', 'movupd')
                                  for o in history) and (
                     max(ts_pair) > 1 or issuer == 'process')}
    elif kind == 'fault':
        _, procs, n_ticks, par, who, j = job
        spec, names = sched_world(procs, n_ticks)
        spec['processes'][who]['raise_at'] = j
        stop = ('full',)
        tag = f'fault:{"parallel" if who in par else "serial"}'
    else:
        _, op, tick, ts, payload, issuer, n_ticks = job[:7]
        op_first = job[7] if len(job) > 7 else False
        multi = len(job) > 8 and job[8] == 'multi'
        spec = struct_world(op, tick, ts, False, payload, n_ticks, issuer,
                            op_first, multi)
        par = ('inner',)
        stop = ('full',)
        status = 'idle' if issuer == 'step' and (tick + 1) % ts == 0 else (
            'due' if (tick + 1) % ts == 0 else 'inflight')
        tag = f'struct:{op[0]}:{status}' + (':big' if payload else '') + (
            ':op-first' if op_first else '')
    case = {'job': job, 'tag': tag}
    if kind == 'hist':
        case['flags'] = flags
    serial_spec = copy.deepcopy(spec)
    serial = run_world(serial_spec, stop)
    if kind == 'hist':
        pspec = hist_world(history, issuer, ts_pair, True)
    elif kind == 'struct':
        pspec = struct_world(op, tick, ts,
                             job[8] if len(job) > 8 and job[8] != 'multi'
                             else True,
                             payload, n_ticks, issuer, op_first, multi)
    else:
        pspec = copy.deepcopy(spec)
        mark(pspec['processes'], par)
        mark(pspec.get('steps', {}), par)
    presult = run_world(pspec, stop)
    acc.case(key=job, outcome=tag)
    acc.counters['workers_started'] += presult.get('n_workers', 0)
    acc.counters['executions_with_workers'] += 1
    judge(case, serial, presult, acc,
          expect_error='fault' if kind == 'fault' else None)
    if len(acc.samples) < 3 and kind == 'struct':
        acc.sample({'job': job, 'tag': tag,
                    'workers': presult.get('n_workers'),
                    'rows_equal': presult['rows'] == serial['rows']})


def jobs(ctx):
    out = []
    n_ticks = BOUNDS[ctx.tier]['ticks']
    grids = [((1, 'always'), (2, 'always')), ((0.75, 'always'),
                                              (1, 'never')),
             ((3, 'always'), (1, 'always'))]
    if not ctx.quick:
        grids += [((0.5, 'always'), (1.25, 'always')),
                  ((2, 'never'), (2, 'always'))]
    for procs in grids:
        names = [f'p{i}' for i in range(len(procs))]
        for par in subsets(names):
            stops = [('full',)] + [('end', k) for k in range(n_ticks + 1)]
            stops += [('end2', k) for k in (0, n_ticks)]
            stops += [('drop', k) for k in (0, 1, n_ticks)]
            for stop in stops:
                out.append(('sched', procs, n_ticks, par, stop))
            # injected exceptions: in the j-th call of a serial or of a
            # parallel process
            for who, (ts_, cond_) in zip(names, procs):
                if cond_ == 'never':
                    continue        # never invoked: nothing to inject
                for j in range(0, 2 if ctx.quick else 3):
                    out.append(('fault', procs, n_ticks, par, who, j))
    for par in subsets(['p', 'w', 'd', 'z0']):
        for stop in [('full',), ('end', 1), ('drop', 1)]:
            out.append(('steps', n_ticks, par, stop))
    for par in (('p1',), ('p0',), ('p0', 'p1')):
        for stop in [('full',), ('end', 2)]:
            out.append(('adaptive', n_ticks + 2, par, stop))
    out.append(('api',))
    for n_funcs in (50, 6000):
        for par in (('p1',), ('p0', 'p1')):
            # (no 'drop' stop here: an engine that is dropped without
            # end() leaves THIS process's profiler switched on, and the
            # next engine with profile=True cannot be built)
            for stop in [('full',), ('end', 1), ('end2', 2)]:
                out.append(('profile', n_funcs, par, stop))
    ops = [('del', 'X', 'a'), ('div', 'X', 'a'), ('mov', 'X', 'a'),
           ('gen', 'X', 'c'), ('add', 'X', 'c'), ('divcopy', 'X', 'a')]
    for op in ops:
        for ts in (1, 3):
            for tick in (0, 1) if ctx.quick else (0, 1, 2):
                for issuer in ('process', 'step'):
                    for payload in (0, 400000):
                        if payload and op[0] in ('gen', 'add'):
                            continue
                        out.append(('struct', op, tick, ts, payload,
                                    issuer, n_ticks + 1))
                        if issuer == 'process':
                            out.append(('struct', op, tick, ts, payload,
                                        issuer, n_ticks + 1, True))
    # structural histories of length 1-2 (explorer B's menu) with the
    # compartments' processes in workers
    hists, _, _ = st.enumerate_histories(
        {'X': ['a', 'b'], 'Y': []}, 'proc', 1 if ctx.quick else 2,
        with_pairs=False, gen_kind='proc')
    for h in hists:
        for issuer in ('step', 'process'):
            for ts_pair in ((1, 1), (3, 1)) if ctx.quick else (
                    (1, 1), (3, 1), (1, 3), (2, 1)):
                out.append(('hist', h, issuer, ts_pair))
    # compartments holding three workers (one nested): all of them must
    # be stopped when the compartment is deleted or divided away
    for op in (('del', 'X', 'a'), ('div', 'X', 'a')):
        for ts in (1, 3):
            for tick in (0, 1):
                for issuer in ('process', 'step'):
                    out.append(('struct', op, tick, ts, 0, issuer,
                                n_ticks + 1, False, 'multi'))
    # a generated parallel step with private state, moved later
    for tick in (0, 1):
        for issuer in ('process', 'step'):
            out.append(('struct', ('genstep', 'X', 'c'), tick, 1, 0,
                        issuer, n_ticks + 3))
    # update values of every "empty" shape through the pipe
    n_vals = len(EDGE_VALUES)
    for i in range(n_vals):
        for j in range(n_vals):
            if ctx.quick and (i + j) % 3 and i != j:
                continue
            for as_step in (False, True):
                out.append(('values', i, j, as_step))
    for sub in (('q1',), ('q2',), ('q1', 'q2')):
        for tick in (0, 1):
            for issuer in ('process', 'step'):
                out.append(('struct', ('gen2', 'X', 'c'), tick, 1, 0,
                            issuer, n_ticks + 1, False, sub))
    return out


def run(ctx):
    fw.preload_forkserver()
    return ctx.map(run_job, jobs(ctx), chunk=2)


def replay(case):
    fw.preload_forkserver()
    acc = fw.Acc()

    def tup(x):
        return tuple(tup(y) for y in x) if isinstance(x, (list, tuple)) \
            else x
    run_job(tup(case['job']), acc)
    return [v for exs in acc.viol_examples.values() for v in exs]


RULE += (
    ' Process p0 of the schedule worlds carries a _schema override; genstep worlds: a generated parallel step with private state whose compartment is moved later; values worlds: every pair of empty-shaped update values through the pipe.')

RULE += (
    ' Profile family: Engine(profile=True) with a parallel process that called 50 / 6000 distinct functions (a profile far larger than a pipe buffer): every stop point returns and every worker is reaped.')

RULE += (
    ' Adaptive family: a process whose timestep depends on a variable another process changes, serial and in a worker. API law: after merge_overrides a process in a worker answers get_schema / schema_override / default_state / initial_state / is_step / name like the process itself.')
