"""C02 - the timestep handed to a process equals the interval it covers."""
import itertools

from vmc import framework as fw
from vmc import sched, afamily
from vmc.props import C01

ID = 'C02'
LEVEL = 'model_checking'
RULE = (
    'same S-/A-/gated families as C01 plus single-process worlds whose '
    'timestep does not divide the run (ts in {0.75, 1.25, 3} against '
    'update(2), update(3.25), update(10), run_for chunks), and a process '
    'with a scripted timestep sequence run serially and in a real worker; '
    'oracle: timestep '
    'argument == length of the interval ending at the application time, '
    'contiguity, sum == elapsed, Clock-like variable == elapsed, nothing '
    'pending after update(). Distinct by (world, choice sequence).')
ASSUMPTIONS = C01.ASSUMPTIONS + [
    'Engine.front is read only as a soft cross-check after update()']
BOUNDS = C01.BOUNDS
MONITORS = ('c02',)


def extra_jobs(ctx):
    jobs = []
    finals = [('update', 10), ('update', 2), ('update', 3.25),
              ('update', 0.5)]
    pre = [[], [('run_for', 1, False)], [('run_for', 2.5, False)],
           [('run_for', 1, True)], [('update', 3.25)]]
    for ts in sched.T_ALL:
        for p in pre:
            for f in finals:
                jobs.append(('S', ((ts, 'always'),), p + [f], False))
    for ts1, ts2 in itertools.product([0.75, 1.25, 3], [0.5, 2, 3]):
        for f in finals:
            jobs.append(('S', ((ts1, 'always'), (ts2, 'always')), [f],
                         False))
    # a process that asks for an enormous (or infinite) timestep: every
    # forced call cuts it to exactly the remaining time
    import math
    for ts in (1e17, 2.0 ** 60, math.inf):
        for sc in ([('update', 5), ('update', 2.5)],
                   [('run_for', 1.5, False), ('update', 2)],
                   [('update', 6.5)],
                   [('run_for', 2.5, True), ('run_for', 1, False),
                    ('update', 0.5)]):
            jobs.append(('S', ((ts, 'always'),), sc, False))
            jobs.append(('S', ((ts, 'always'), (1, 'always')), sc, False))
    # zero-length forcing calls that flush lagging processes
    zero = [[('update', 0)], [('run_for', 0, True)],
            [('run_for', 0, True), ('update', 2)]]
    lag = [[('run_for', 1, False)], [('run_for', 1.5, False)],
           [('run_for', 2.5, False)], [('run_for', 3.5, False)],
           [('run_for', 1, False), ('run_for', 1.5, False)]]
    for ts in sched.T_ALL:
        for pre in lag:
            for z in zero:
                jobs.append(('S', ((ts, 'always'),), pre + z, False))
                jobs.append(('S', ((ts, 'always'), (1, 'always')),
                             pre + z, False))
                jobs.append(('S', ((ts, 'always'), (2, 'never')),
                             pre + z, False))
    # the same lagging schedules (and calls that end off the process's
    # grid) with a global_time_precision: all times lie on the 10^-4 grid,
    # so every process is still handed exactly its interval
    cut = [[('run_for', 0.5, False)] * 3 + [('update', 2)],
           [('run_for', 0.5, False), ('run_for', 1, False),
            ('run_for', 0.5, True)]]
    for ts in sched.T_ALL:
        for sc in [pre + z for pre in lag for z in zero[:2]] + cut:
            jobs.append(('S', ((ts, 'always'),), sc, False, 0, 1, 4))
            jobs.append(('S', ((ts, 'always'), (1, 'always')), sc, False,
                         0, 1, 4))
    return jobs


# ----------------------------------------------------------------------
# a compartment is deleted and generated anew under the same key within
# one tick: the NEW process's intervals tile [its creation, the end]

def regen_jobs(ctx):
    jobs = []
    for ts in (1.5, 3, 1, 2.5):
        for tick in (0, 1, 2):
            for issuer in ('process', 'step'):
                jobs.append(('regen', ts, tick, issuer))
    return jobs


def run_regen(job, acc):
    from vmc import structural as st
    from vmc import worlds
    _, ts, tick, issuer = job
    n = tick if issuer == 'process' else tick + 1
    op = ('regen', 'X', 'a')
    spec = st.initial_world(
        'proc', {'a': ts}, issuer, {n: st.op_update(op, 'proc', ts)},
        init={'X': ['a'], 'Y': []},
        op2_script={n: st.op2_update(op, 'proc', ts)})
    spec['processes']['ticker'] = {
        'cls': 'P', 'pid': 'ticker', 'ts': 1, 'log_states': False,
        'schema': {'tk': {'n': dict(st.VAR)}}, 'update': {'tk': {'n': 1}}}
    spec['topology']['ticker'] = {'tk': ('ticker_store',)}
    horizon = 7
    spec['script'] = [('update', horizon)]
    case = {'family': 'regen', 'job': job}
    ex = worlds.execute(spec)
    acc.case(key=job, outcome='regen')
    acc.validated += 1
    V = lambda rule, fp, msg: acc.violate(  # noqa
        fw.violation(rule, fp, msg, case))
    if ex.error:
        V('C02.crash', f'regen:{type(ex.error[2]).__name__}',
          f'{job}: unexpected {ex.error[2]!r}')
        return
    first_poll, handed = {}, {}
    for ev in ex.trace:
        if ev[0] == 'poll' and ev[2] == 'proc':
            first_poll.setdefault(ev[1], ev[4])
        elif ev[0] == 'invoke' and ev[2] == 'proc':
            handed.setdefault(ev[1], []).append((ev[4], ev[5]))
    if len(first_poll) != 2:
        V('C02.coverage', 'regen-world-vacuous',
          f'{job}: {len(first_poll)} proc instances were polled')
        return
    new_uid = max(first_poll)            # uids grow with creation order
    # the time at which the _generate is applied: the operator's n-th
    # invocation (a step's update is applied in its phase, a timestep-1
    # process's one time unit later)
    issued = [ev[4] for ev in ex.trace
              if ev[0] == 'invoke' and ev[2] == 'op2' and ev[3] == n]
    if not issued:
        V('C02.coverage', 'regen-world-vacuous', f'{job}: never issued')
        return
    born = issued[0] + (1 if issuer == 'process' else 0)
    steps = handed.get(new_uid, [])
    total = sum(t for _, t in steps)
    if born is None or abs(total - (horizon - born)) > 1e-9:
        V('C02.sum', 'regenerated-process-timesteps-do-not-tile-its-life',
          f'{job}: the process generated at t={born} was handed '
          f'{[t for _, t in steps]} (invoked at {[a for a, _ in steps]}), '
          f'which sums to {total}; it lived for {horizon - born}')


def para_jobs(ctx):
    """One process with a scripted (poll-number dependent) timestep
    sequence, run serially and in a real worker, next to a serial ts-1
    process."""
    seqs = [s for s in itertools.permutations([1, 2, 0.5, 1.25], 3)]
    if not ctx.quick:
        seqs = [s for s in itertools.permutations(
            [1, 2, 0.5, 1.25, 0.75, 3], 4)]
    return [('ParA', seq, par, other)
            for seq in seqs for par in (False, True)
            for other in (False, True)]


def run_para(job, acc):
    _, seq, par, other = job
    from vmc import worlds, framework as fw2
    spec = sched.s_world([(1, 'always')] + ([(1, 'always')] if other
                                            else []),
                         [('update', 6), ('end',)])
    spec['processes']['p0']['ts'] = {
        '$n': {i: t for i, t in enumerate(seq)}, '$else': 1}
    if par:
        spec['processes']['p0']['_parallel'] = True
    spec['family'] = 'ParA'
    spec['job'] = job
    ex = worlds.execute(spec, guard_factory=sched.lasso_guard,
                        watchdog=60.0)
    acc.case(key=job, outcome=f'ParA:par={par}')
    V = lambda rule, fp, msg: acc.violate(  # noqa
        fw2.violation(rule, fp, msg, spec))
    try:
        if ex.error:
            V('C02.crash', 'para:' + sched.crash_fp(ex),
              f'unexpected {ex.error[2]!r}')
            return
        # requested intervals: cumulative sums of the scripted sequence
        ends, t, k = [], 0, 0
        while t < 6:
            ts = seq[k] if k < len(seq) else 1
            t = min(t + ts, 6)
            ends.append((t, min(ts, t - (ends[-1][0] if ends else 0))))
            k += 1
        for (T, data, snap) in worlds.history_rows(ex):
            done = [(e, ts) for e, ts in ends if e <= T]
            node = data.get('s0', {})
            if len(node.get('tok', ())) != len(done) or \
                    node.get('clk') != sum(ts for _, ts in done):
                V('C02.timestep', 'handed-timestep-is-not-the-requested-one',
                  f'scripted timesteps {seq} (parallel={par}): at t={T} '
                  f'the process has {len(node.get("tok", ()))} updates and '
                  f'clock variable {node.get("clk")}; requested intervals '
                  f'end at {ends}')
                return
    finally:
        if ex.engine is not None:
            try:
                ex.engine.end()
            except Exception:  # noqa
                pass


def run_job(job, acc):
    if job[0] == 'regen':
        run_regen(job, acc)
        return
    if job[0] == 'ParA':
        run_para(job, acc)
        return
    if job[0] == 'BFS':
        afamily.run_bfs_job(job, acc, MONITORS)
        return
    if job[0] == 'S':
        C01.run_s(job, acc, MONITORS)
    else:
        afamily.run_a(job, acc, MONITORS)


def run(ctx):
    fw.preload_forkserver()
    acc = ctx.map(run_job, para_jobs(ctx), chunk=4)
    ctx.map(run_job, afamily.a_jobs(ctx), acc=acc, chunk=1)
    ctx.map(run_job, C01.bfs_jobs(ctx), acc=acc, chunk=1)
    return ctx.map(run_job, C01.s_jobs(ctx) + extra_jobs(ctx) +
                   regen_jobs(ctx), acc=acc)


def replay(case):
    acc = fw.Acc()
    if case.get('family') == 'regen':
        run_regen(tuple(case['job']), acc)
    elif case.get('family') == 'ParA':
        fw.preload_forkserver()
        run_para(case['job'], acc)
    elif case.get('family') == 'S':
        C01.run_s(C01.s_job_of(case), acc, MONITORS)
    else:
        afamily.replay(case, acc, MONITORS)
    return [v for exs in acc.viol_examples.values() for v in exs]


RULE += (
    " Also: processes that ask for 1e17, 2**60 or an infinite timestep under forced calls; a compartment deleted and generated anew under the same key in one tick (process / step operators, old process in flight) - the new process's timesteps tile exactly its life.")

RULE += (
    ' Lagging schedules and calls that end off the process grid (run_for(0.5) against timesteps 0.5-3) are also run with global_time_precision = 4.')
