"""C02 - the timestep handed to a process equals the interval it covers."""
import itertools

from vmc import framework as fw
from vmc import sched, afamily
from vmc.props import C01

ID = 'C02'
LEVEL = 'model_checking'
RULE = (
    'same S-/A-/gated families as C01 plus single-process worlds whose '
    'timestep does not divide the run (ts in {0.75, 1.25, 3} against '
    'update(2), update(3.25), update(10), run_for chunks); oracle: timestep '
    'argument == length of the interval ending at the application time, '
    'contiguity, sum == elapsed, Clock-like variable == elapsed, nothing '
    'pending after update(). Distinct by (world, choice sequence).')
ASSUMPTIONS = C01.ASSUMPTIONS + [
    'Engine.front is read only as a soft cross-check after update()']
BOUNDS = C01.BOUNDS
MONITORS = ('c02',)


def extra_jobs(ctx):
    jobs = []
    finals = [('update', 10), ('update', 2), ('update', 3.25),
              ('update', 0.5)]
    pre = [[], [('run_for', 1, False)], [('run_for', 2.5, False)],
           [('run_for', 1, True)], [('update', 3.25)]]
    for ts in sched.T_ALL:
        for p in pre:
            for f in finals:
                jobs.append(('S', ((ts, 'always'),), p + [f], False))
    for ts1, ts2 in itertools.product([0.75, 1.25, 3], [0.5, 2, 3]):
        for f in finals:
            jobs.append(('S', ((ts1, 'always'), (ts2, 'always')), [f],
                         False))
    # zero-length forcing calls that flush lagging processes
    zero = [[('update', 0)], [('run_for', 0, True)],
            [('run_for', 0, True), ('update', 2)]]
    lag = [[('run_for', 1, False)], [('run_for', 1.5, False)],
           [('run_for', 2.5, False)], [('run_for', 3.5, False)],
           [('run_for', 1, False), ('run_for', 1.5, False)]]
    for ts in sched.T_ALL:
        for pre in lag:
            for z in zero:
                jobs.append(('S', ((ts, 'always'),), pre + z, False))
                jobs.append(('S', ((ts, 'always'), (1, 'always')),
                             pre + z, False))
                jobs.append(('S', ((ts, 'always'), (2, 'never')),
                             pre + z, False))
    return jobs


def run_job(job, acc):
    if job[0] == 'S':
        C01.run_s(job, acc, MONITORS)
    else:
        afamily.run_a(job, acc, MONITORS)


def run(ctx):
    acc = ctx.map(run_job, afamily.a_jobs(ctx), chunk=1)
    return ctx.map(run_job, C01.s_jobs(ctx) + extra_jobs(ctx), acc=acc)


def replay(case):
    acc = fw.Acc()
    if case.get('family') == 'S':
        C01.run_s(('S', case['procs'], case['script'],
                   case.get('nested', False)), acc, MONITORS)
    else:
        afamily.replay(case, acc, MONITORS)
    return [v for exs in acc.viol_examples.values() for v in exs]
