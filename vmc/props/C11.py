"""C11 - division gives daughters what the dividers promise; daughters are
independent.  Every random outcome of the dividers is enumerated."""
import copy
import itertools
import math

import numpy as np

import vivarium.core.registry as registry
from vivarium.library.units import units, Quantity

from vivarium.core.composer import Composer

from vmc import framework as fw
from vmc import probes, worlds

ID = 'C11'
LEVEL = 'exploration'
EXHAUSTIVE = True
RULE = (
    'mother value x divider: set (ints, floats, list, dict, array), split '
    '(ints 0, 1, 2, 7, -3, 10^12+1, 2^62+3; floats; a quantity; inf; '
    '"Infinity"; BOTH outcomes of the coin), split_dict (0-4 keys, on a '
    'leaf and as a branch-level divider over a glob port), binomial (n = '
    '0-6, EVERY k), zero, set_value (config), null, no_divide (must '
    'raise), user divider as function and as {divider, topology, config}; '
    'explicit daughter initial_state on none/one/both; daughters\' '
    'processes explicit or copied; compartment depth 1-2; 1-3 generations; '
    'then a single-variable update applied to one daughter only. Oracle: '
    'reference dividers, conservation, overrides, defaults, mother gone, '
    'outside unchanged, distinct process objects, before/after diff of the '
    'other daughter. Distinct by (divider, value, outcome, options).')
ASSUMPTIONS = [
    'random.choice / numpy.random.binomial as used by the dividers are '
    'replaced by enumerating choosers for the duration of a case',
]
BOUNDS = {'quick': {'generations': 2}, 'thorough': {'generations': 4}}


PATTERN = (0, 1, 1, 0)     # call k answers outcome (0) or its opposite (1)


class FixedRandom:
    """Stands in for the ``random`` module inside vivarium.core.registry.
    Successive draws differ (outcome, opposite, opposite, outcome, ...), so
    a divider that is consulted once per daughter instead of once per
    division hands out shares that do not belong together."""
    def __init__(self, outcome):
        self.outcome = outcome
        self.calls = 0

    def answer(self):
        flip = PATTERN[self.calls % len(PATTERN)]
        self.calls += 1
        return (not self.outcome) if flip else bool(self.outcome)

    def choice(self, seq):
        return seq[0] if self.answer() else seq[1]


def user_divider(value, **kw):
    cfg = kw.get('config', {})
    st = kw.get('state', {})
    bonus = st.get('other', 0) if st else 0
    return [value + cfg.get('plus', 0) + bonus, value - cfg.get('plus', 0)]


def cases(ctx):
    """(label, schema for v, mother value, expected(outcome) -> (d0, d1) |
    'raises', outcomes)."""
    out = []

    def add(label, divider, val, exp, outcomes=(None,), updater='set',
            extra=None):
        out.append({'label': label, 'divider': divider, 'value': val,
                    'expect': exp, 'outcomes': list(outcomes),
                    'updater': updater, 'extra': extra or {}})
    # set (explicit and default)
    for i, val in enumerate([3, -1.5, [1, 2], {'k': {'j': 1}}, 'arr']):
        add(f'set:{i}', 'set', val, lambda v, o: (v, v))
        add(f'default:{i}', None, val, lambda v, o: (v, v))
    # split: ints, both coin outcomes
    for n in (0, 1, 2, 7, -3, 10 ** 12 + 1, 2 ** 62 + 3):
        def exp(v, o):
            lo, hi = v // 2, v - v // 2
            return (hi, lo) if o else (lo, hi)
        add(f'split:int:{n}', 'split', n, exp, outcomes=(True, False))
    add('split:npint', 'split', 'np7',
        lambda v, o: ((int(v) - int(v) // 2, int(v) // 2) if o
                      else (int(v) // 2, int(v) - int(v) // 2)),
        outcomes=(True, False))
    for f in (0.0, 3.0, -2.5, 1e-300):
        add(f'split:float:{f}', 'split', f, lambda v, o: (v / 2, v / 2))
    add('split:quantity', 'split', 'q', lambda v, o: (v / 2, v / 2))
    # a quantity with an INTEGER magnitude (a count with units): halves,
    # whatever the coin says
    for qn in ('qint7', 'qint8'):
        add(f'split:{qn}', 'split', qn, lambda v, o: (v / 2, v / 2),
            outcomes=(True, False))
    add('split:inf', 'split', math.inf, lambda v, o: (v, v))
    add('split:Infinity', 'split', 'Infinity', lambda v, o: (v, v))
    # split_dict on a leaf
    for k in range(5):
        d = {f'k{i}': i for i in range(k)}
        add(f'split_dict:{k}', 'split_dict', d, 'partition')
    # binomial: every k
    for n in range(7):
        add(f'binomial:{n}', 'binomial', n,
            lambda v, o: (o, v - o), outcomes=tuple(range(n + 1)))
    # a mother value with a fractional part: the total is still conserved
    for fv in (7.5, 2.5):
        add(f'binomial:{fv}', 'binomial', fv, lambda v, o: (o, v - o),
            outcomes=tuple(range(int(fv) + 1)))
    add('zero', 'zero', 7, lambda v, o: (0, 0))
    for i, val in enumerate([math.inf, -math.inf, math.nan, 'arr', 'q',
                             0.0]):
        # "zeros": for a variable with units, zero in those units
        add(f'zero:{i}', 'zero', val,
            lambda v, o: ((0 * v.units, 0 * v.units)
                          if isinstance(v, Quantity) else (0, 0)))
    add('set_value', {'divider': 'set_value', 'config': {'value': 11}}, 7,
        lambda v, o: (11, 11))
    add('null', 'null', 7, lambda v, o: ('DEFAULT', 'DEFAULT'))
    add('no_divide', 'no_divide', 7, 'raises')
    add('user:function', user_divider, 7, lambda v, o: (v, v))
    add('user:dict', {'divider': user_divider, 'config': {'plus': 2},
                      'topology': {'other': ('..', 'other')}}, 7,
        lambda v, o: (v + 2 + 5, v - 2))
    add('user:named', {'divider': 'split'}, 6.0,
        lambda v, o: (v / 2, v / 2))
    return out


def mk_value(val):
    if val == 'arr':
        return np.array([1.0, 2.0])
    if val == 'q':
        return 3.0 * units.fg
    if val == 'np7':
        return np.int64(7)
    if val in ('qint7', 'qint8'):
        return int(val[-1]) * units.count
    return copy.deepcopy(val)


def cell_spec(case, default_override=None):
    v = mk_value(case['value'])
    leaf = {'_default': v if default_override is None else default_override,
            '_updater': case['updater'], '_emit': True}
    if case['divider'] is not None:
        leaf['_divider'] = case['divider']
    return {'cls': 'P', 'pid': 'cell', 'ts': 1, 'log_states': False,
            'schema': {'inner': {'v': leaf,
                                 'other': {'_default': 5, '_emit': True}}},
            'update': {}}


def alt_default(v):
    """A default of the same kind as v but different from it."""
    if isinstance(v, dict):
        return {'dflt': 0}
    if isinstance(v, Quantity):
        return 1.0 * v.units
    if isinstance(v, np.ndarray):
        return np.array([0.0, 0.0])
    if isinstance(v, (bool, str, list)):
        return v
    if isinstance(v, (int, np.integer)):
        return 1
    if isinstance(v, float):
        return 1.0
    return v


def world(case, init_on, copy_procs, depth, generations):
    """init_on: subset of daughters (0/1) with an explicit initial state.

    Besides the variable declared by the cell's own process (store/v) the
    same value lives in ext/v, which is declared ONLY by an outside process
    through a glob port over the agents (with the same divider)."""
    home = ('agents',) if depth == 1 else ('agents', 'sub')
    cell = cell_spec(case)
    topo_cell = {'inner': ('store',)}

    def daughters(mother):
        ds = []
        for i in (0, 1):
            d = {'key': f'{mother}{i}'}
            if not copy_procs:
                d['processes'] = {'$probes': {'cell': cell_spec(case)}}
                d['topology'] = {'cell': dict(topo_cell)}
            if i in init_on:
                d['initial_state'] = {'store': {'other': 70 + i}}
            ds.append(d)
        return ds

    def put(tree, path, value):
        for k in path[:-1]:
            tree = tree.setdefault(k, {})
        tree[path[-1]] = value

    plan = {}
    mother = 'm'
    for g in range(generations):
        plan[g + 1] = {'agents': {'_divide': {'mother': mother,
                                          'daughters': daughters(mother)}}}
        mother = mother + '0'
    # the division is issued by a step: step phases run when no process
    # has a command pending (K7 is explored under C10); its run number 0 is
    # the constructor phase
    div = {'cls': 'S', 'pid': 'div', 'log_states': False,
           'schema': {'agents': {}},
           'update': {'$n': plan, '$else': {}}}
    ext_leaf = {'_default': alt_default(mk_value(case['value'])),
                '_updater': case['updater'], '_emit': True}
    if case['divider'] is not None:
        ext_leaf['_divider'] = case['divider']
    if isinstance(case['divider'], dict) and 'topology' in case['divider']:
        ext_leaf['_divider'] = dict(case['divider'], topology={
            'other': ('..', '..', 'store', 'other')})
    keeper = {'cls': 'P', 'pid': 'keeper', 'ts': 1, 'log_states': False,
              'schema': {'out': {'x': {'_default': 9, '_emit': True}},
                         'agents': {'*': {'ext': {'v': ext_leaf}}}},
              'update': {}}

    processes = {'keeper': keeper}
    topology = {'div': {'agents': home},
                'keeper': {'out': ('out',), 'agents': home}}
    state = {}
    put(state, home + ('m', 'ext', 'v'), mk_value(case['value']))
    put(processes, home + ('m', 'cell'), cell)
    put(topology, home + ('m', 'cell'), dict(topo_cell))
    return {'processes': processes, 'steps': {'div': div},
            'flow': {'div': []}, 'topology': topology, 'state': state,
            'script': [('update', 1)] * generations, 'home': home}


def same(a, b):
    if isinstance(a, Quantity) or isinstance(b, Quantity):
        return (isinstance(a, Quantity) and isinstance(b, Quantity)
                and a.units == b.units and a.magnitude == b.magnitude)
    if isinstance(a, np.ndarray) or isinstance(b, np.ndarray):
        return (isinstance(a, np.ndarray) and isinstance(b, np.ndarray)
                and a.shape == b.shape and bool(np.all(a == b)))
    if isinstance(a, dict) and isinstance(b, dict):
        return set(a) == set(b) and all(same(a[k], b[k]) for k in a)
    if isinstance(a, (list, tuple)) and isinstance(b, (list, tuple)):
        return type(a) is type(b) and len(a) == len(b) and all(
            same(x, y) for x, y in zip(a, b))
    if isinstance(a, float) and isinstance(b, float):
        return a == b or (math.isnan(a) and math.isnan(b))
    if isinstance(a, (int, np.integer)) and isinstance(b, (int, np.integer)) \
            and not isinstance(a, bool) and not isinstance(b, bool):
        return int(a) == int(b)
    return type(a) is type(b) and a == b


def get(tree, path):
    for k in path:
        tree = tree[k]
    return tree


def shared_mutables(a, b, path=()):
    """Paths at which two parameter trees hold THE SAME dict / list /
    array object."""
    out = []
    if isinstance(a, (dict, list, np.ndarray)) and a is b:
        return [path]
    if isinstance(a, dict) and isinstance(b, dict):
        for k in a:
            if k in b:
                out += shared_mutables(a[k], b[k], path + (k,))
    elif isinstance(a, list) and isinstance(b, list):
        for i, (x, y) in enumerate(zip(a, b)):
            out += shared_mutables(x, y, path + (i,))
    return out


def run_case(job, acc):
    ci, outcome, init_on, copy_procs, depth, generations = job

    class _C:
        quick = True
    case = cases(_C())[ci]
    label = {'case': case['label'], 'outcome': outcome,
             'init_on': list(init_on), 'copy_processes': copy_procs,
             'depth': depth, 'generations': generations, 'job': list(job)}
    V = lambda rule, fp, msg: acc.violate(  # noqa
        fw.violation(rule, fp, msg, label))
    spec = world(case, init_on, copy_procs, depth, generations)
    home = spec['home']
    saved_random = registry.random
    saved_binom = np.random.binomial
    fixed = FixedRandom(bool(outcome))
    registry.random = fixed
    binom_calls = [0]

    def fake_binomial(n, p):
        flip = PATTERN[binom_calls[0] % len(PATTERN)]
        binom_calls[0] += 1
        return (n - outcome) if flip else outcome
    if case['divider'] == 'binomial':
        np.random.binomial = fake_binomial
    try:
        ex = worlds.execute(spec)
    finally:
        registry.random = saved_random
        np.random.binomial = saved_binom
    acc.case(key=(case['label'], outcome, init_on, copy_procs, depth,
                  generations),
             outcome=case['label'].split(':')[0])
    expect = case['expect']
    if expect == 'raises':
        if not ex.error:
            V('C11.no_divide', 'no_divide-did-not-raise',
              'dividing a variable declared no_divide did not raise')
        return
    if ex.error:
        V('C11.crash', f'{case["label"].split(":")[0]}:'
          f'{type(ex.error[2]).__name__}',
          f'{case["label"]}: unexpected {ex.error[2]!r}')
        return
    state = ex.engine.state.get_value()
    agents = get(state, home)
    # genealogy: after g generations the leaves are m1, m01, ..., m0..0
    mother = 'm'
    v0 = mk_value(case['value'])
    for g in range(generations):
        mother_next = mother + '0'
        if g < generations - 1:
            v0_prev = v0
            # value handed down to daughter 0 of this generation
            if expect == 'partition':
                pass
            mother = mother_next
            continue
    # only the last generation is compared in detail (earlier ones were
    # the last generation of a shorter case)
    last_mother = 'm' + '0' * (generations - 1)
    d0, d1 = last_mother + '0', last_mother + '1'
    want_keys = {d0, d1} | {'m' + '0' * g + '1'
                            for g in range(generations - 1)}
    if set(k for k in agents if k != 'sub') != want_keys:
        V('C11.structure', 'wrong-compartments-after-division',
          f'agents hold {sorted(agents)}, expected {sorted(want_keys)}')
        return
    # the values the last mother held just before she divided (from the
    # snapshot taken at the previous emit)
    rows_ = worlds.history_rows(ex)
    prev = rows_[-2][2] if len(rows_) >= 2 else None
    val = mk_value(case['value'])
    ext_val = val
    mother_other = 5
    if generations > 1 and prev is not None:
        try:
            mnode = get(prev, home + (last_mother,))
            val = mnode['store']['v']
            ext_val = mnode['ext']['v']
            # 'other' has the default (set) divider: the last mother
            # passes on what SHE held (70 if her own birth overrode it)
            mother_other = mnode['store']['other']
        except Exception:  # noqa
            pass
    got0 = agents[d0]['store']['v']
    got1 = agents[d1]['store']['v']
    if expect == 'partition':
        keys = list(val)
        ok = (isinstance(got0, dict) and isinstance(got1, dict)
              and not (set(got0) & set(got1))
              and set(got0) | set(got1) == set(keys)
              and all(got0[k] == val[k] for k in got0)
              and all(got1[k] == val[k] for k in got1)
              and abs(len(got0) - len(got1)) <= 1)
        if not ok:
            V('C11.value', 'split_dict-not-a-partition',
              f'mother {val} -> {got0} / {got1}')
    else:
        w0, w1 = expected_pair(case, val, outcome, mother_other)
        alt = None
        if len(case['outcomes']) > 1 and generations == 1:
            # two variables (store/v, ext/v) are divided: one gets the
            # first draw, the other the second (opposite) draw
            opp = (not outcome) if isinstance(outcome, bool) else (
                val - outcome)
            alt = expected_pair(case, val, opp, mother_other)
        ok_v = same(got0, w0) and same(got1, w1)
        ok_alt = alt is not None and same(got0, alt[0]) and same(
            got1, alt[1])
        if generations > 1 and len(case['outcomes']) > 1:
            # later generations: only conservation is compared
            try:
                ok_v = same(got0 + got1, val)
            except Exception:  # noqa
                ok_v = False
        if not (ok_v or ok_alt):
            fp = case['label'].split(':')[0]
            conserve = ''
            try:
                if fp in ('split', 'binomial') and not same(
                        got0 + got1, val) and not (
                        isinstance(val, float) and math.isinf(val)):
                    conserve = '-not-conserved'
            except Exception:  # noqa
                pass
            V('C11.value', f'{fp}-divider{conserve}',
              f'{case["label"]} outcome {outcome}: mother {val!r} -> '
              f'{got0!r} / {got1!r}, expected {w0!r} / {w1!r}')
    # the same variable declared only through the outside glob port
    e0 = agents[d0].get('ext', {}).get('v')
    e1 = agents[d1].get('ext', {}).get('v')
    if expect == 'partition':
        ok = (isinstance(e0, dict) and isinstance(e1, dict)
              and not (set(e0) & set(e1))
              and dict(e0, **e1) == ext_val)
        if not ok:
            V('C11.value', 'glob-declared-variable-loses-its-share',
              f'ext/v (declared by an outside glob port): mother {val} -> '
              f'{e0} / {e1}')
    else:
        w0, w1 = expected_pair(case, ext_val, outcome, mother_other)
        if case['divider'] == 'null':
            w0 = w1 = alt_default(mk_value(case['value']))
        ok_e = same(e0, w0) and same(e1, w1)
        if len(case['outcomes']) > 1:
            try:
                ok_e = same(e0 + e1, ext_val)  # the other draw: conserved
            except Exception:  # noqa
                ok_e = False
            # and the two variables used different draws of one division
            if generations == 1 and ok_e and same(e0, got0) and not same(
                    e0, e1) and not same(got0, got1):
                ok_e = False
        if not ok_e:
            V('C11.value', 'glob-declared-variable-loses-its-share',
              f'{case["label"]} outcome {outcome}: ext/v (declared only by '
              f'an outside glob port) mother {val!r} -> {e0!r} / {e1!r}, '
              f'expected {w0!r} / {w1!r}')
    # overrides and defaults
    for i, d in enumerate((d0, d1)):
        want_other = 70 + i if i in init_on else mother_other
        if agents[d]['store']['other'] != want_other:
            V('C11.override', 'initial-state-or-default-wrong',
              f'daughter {d}: other={agents[d]["store"]["other"]}, '
              f'expected {want_other}')
    if state['out']['x'] != 9:
        V('C11.frame', 'outside-changed', f'out.x = {state["out"]["x"]}')
    # separate process instances
    p0 = ex.engine.state.get_path(home + (d0, 'cell')).value
    p1 = ex.engine.state.get_path(home + (d1, 'cell')).value
    if p0 is p1:
        V('C11.independence', 'daughters-share-a-process-instance',
          f'{d0} and {d1} hold the same process object')
    elif copy_procs:
        # (daughters given explicit processes hold whatever the issuer
        # built; copies of the mother's processes are the library's)
        shared = shared_mutables(p0.parameters, p1.parameters)
        if shared:
            V('C11.independence', 'daughters-share-process-parameters',
              f'the processes of {d0} and {d1} are distinct objects but '
              f'share the mutable parameter objects at {shared[:3]}: '
              f'changing one daughter\'s configuration changes her '
              f'sister\'s')
    # independence: update one variable of daughter 0 only
    before = copy.deepcopy(probes.pure(ex.engine.state.get_value()))
    upd = independence_update(case, got0)
    if upd is not None:
        try:
            target = ex.engine.state.get_path(home + (d0, 'store', 'v'))
            target.apply_update(upd)
        except Exception as e:  # noqa
            V('C11.crash', f'update-daughter:{type(e).__name__}',
              f'updating {d0} raised {e!r}')
            return
        after = probes.pure(ex.engine.state.get_value())
        b1 = get(before, home + (d1,))
        a1 = get(after, home + (d1,))
        if not same(b1['store'], a1['store']):
            # lists and arrays under the set divider are known finding
            # K4; DICTIONARY values are separated by Store.divide
            V('C11.independence',
              ('shared-dict-value:%s-divider' if isinstance(got0, dict)
               else 'shared-mutable-value:%s-divider') % (
                  'set' if case['divider'] in (None, 'set')
                  else case['label'].split(':')[0]),
              f'updating {d0}.v with {upd!r} changed {d1}: {b1["store"]} '
              f'-> {a1["store"]}')
        if not same(before['out'], after['out']):
            V('C11.frame', 'outside-changed-by-daughter-update',
              f'{before["out"]} -> {after["out"]}')
    if len(acc.samples) < 3 and generations == 2 and outcome:
        acc.sample({'case': case['label'], 'outcome': outcome,
                    'daughters': {d0: repr(got0), d1: repr(got1)}})


def expected_pair(case, val, outcome, bonus=5):
    if case['expect'] == 'partition':
        items = list(val.items())
        return (dict(items[len(items) // 2:]), dict(items[:len(items) // 2]))
    w0, w1 = case['expect'](val, outcome)
    if isinstance(w0, str) and w0 == 'DEFAULT':
        w0 = w1 = mk_value(case['value'])
    if case['label'] == 'user:dict' and bonus != 5:
        # the divider's topology reads the mother's neighbour 'other'
        w0 = w0 - 5 + bonus
    return w0, w1


def independence_update(case, got0):
    """An update for daughter 0's variable, via an in-place updater where
    the value is mutable."""
    if isinstance(got0, dict):
        return {'_updater': 'dict_value',
                '_value': {'_add': [{'key': 'zz', 'state': {'q': 1}}]}}
    if isinstance(got0, (int, float, np.integer)) and not isinstance(
            got0, bool):
        return {'_updater': 'accumulate', '_value': 1}
    if isinstance(got0, np.ndarray):
        # an updater that changes the array it is given
        return {'_updater': _add_in_place, '_value': np.array([9.0, 9.0])}
    if isinstance(got0, list):
        return {'_updater': _extend_in_place, '_value': [3]}
    return None


def _add_in_place(current, update):
    current += update
    return current


def _extend_in_place(current, update):
    current.extend(update)
    return current


class CellComposer(Composer):
    """Builds one cell process; the divider of its variable comes ONLY
    from the composer's _schema override."""
    defaults = {}

    def generate_processes(self, config):
        return {'cell': probes.Probe({
            'pid': 'cell', 'ts': 1, 'log_states': False,
            'schema': {'inner': {'v': {'_default': 0, '_updater': 'set',
                                       '_emit': True}}},
            'update': {}})}

    def generate_topology(self, config):
        return {'cell': {'inner': ('store',)}}


_COMPOSER = []


def _compose_daughters(tpl, env):
    ds = []
    for key in tpl['keys']:
        comp = _COMPOSER[0].generate({'agent': key})
        ds.append({'key': key, 'processes': comp['processes'],
                   'topology': comp['topology']})
    return {'agents': {'_divide': {'mother': tpl['mother'],
                                   'daughters': ds}}}


probes.TEMPLATE_HOOKS['c11compose'] = _compose_daughters


def composer_case(job, acc):
    """Daughters whose processes come from ONE composer that carries the
    divider as a _schema override (the MetaDivision pattern): the override
    applies to every composite the composer generates, the first (built
    without a config) and all later ones."""
    _, first_configless = job
    label = {'case': 'composer-daughters', 'job': list(job)}
    acc.case(key=job, outcome='composer')
    del _COMPOSER[:]
    _COMPOSER.append(CellComposer({'_schema': {'cell': {'inner': {'v': {
        '_divider': 'split'}}}}}))
    first = _COMPOSER[0].generate(path=('agents', 'm')) \
        if first_configless else _COMPOSER[0].generate(
            {'agent': 'm'}, path=('agents', 'm'))
    div = probes.ProbeStep({
        'pid': 'div', 'log_states': False, 'schema': {'agents': {}},
        'update': {'$n': {
            1: {'$call': 'c11compose', 'mother': 'm',
                'keys': ['m0', 'm1']},
            2: {'$call': 'c11compose', 'mother': 'm0',
                'keys': ['m00', 'm01']}}, '$else': {}}})
    ticker = probes.Probe({'pid': 'ticker', 'ts': 1, 'log_states': False,
                           'schema': {'tk': {'n': {'_default': 0}}},
                           'update': {'tk': {'n': 1}}})
    try:
        eng = probes.MonitoredEngine(
            processes=dict(first['processes'], ticker=ticker),
            steps={'div': div}, flow={'div': []},
            topology=dict(first['topology'], div={'agents': ('agents',)},
                          ticker={'tk': ('tks',)}),
            initial_state={'agents': {'m': {'store': {'v': 8}}}},
            emitter={'type': 'null'}, display_info=False)
        eng.update(2)
        agents = probes.pure(eng.state.get_value())['agents']
    except Exception as e:  # noqa
        acc.violate(fw.violation(
            'C11.crash', f'composer:{type(e).__name__}',
            f'unexpected {e!r}', label))
        return
    got = {k: v['store']['v'] for k, v in agents.items()}
    if got != {'m1': 4, 'm00': 2, 'm01': 2}:
        acc.violate(fw.violation(
            'C11.value', 'composer-declared-divider-not-applied',
            f'split divider declared through the composer\'s _schema '
            f'override, mother 8, two generations: {got}, expected '
            f'm1=4, m00=2, m01=2', label))


def leak_case(job, acc):
    """An explicit initial state for ONE daughter that overrides (part of)
    a value the divider hands to BOTH daughters as one object - a branch
    with the set divider, a dictionary-valued leaf with the default
    divider: the sister keeps the mother's value."""
    _, kind, which, copy_procs = job
    label = {'case': f'leak:{kind}', 'job': list(job)}
    acc.case(key=job, outcome='leak')
    if kind == 'branch-set':
        schema = {'b': {'_divider': 'set',
                        'x': {'_default': 0, '_emit': True},
                        'y': {'_default': 0, '_emit': True}}}
        state = {'b': {'x': 5, 'y': 6}}
        override = {'b': {'x': 100}}
        mothers, overridden = {'x': 5, 'y': 6}, {'x': 100, 'y': 6}
    else:
        schema = {'b': {'v': {'_default': {}, '_updater': 'set',
                              '_emit': True}}}
        state = {'b': {'v': {'k': {'j': 1}, 'l': 2}}}
        override = {'b': {'v': {'k': {'j': 100}}}}
        mothers = {'v': {'k': {'j': 1}, 'l': 2}}
        overridden = {'v': {'k': {'j': 100}, 'l': 2}}
    cell = {'cls': 'P', 'pid': 'cell', 'ts': 1, 'log_states': False,
            'schema': schema, 'update': {}}
    ds = []
    for i in (0, 1):
        d = {'key': f'm{i}'}
        if not copy_procs:
            d['processes'] = {'$probes': {'cell': copy.deepcopy(cell)}}
            d['topology'] = {'cell': {'b': ('b',)}}
        if i == which:
            d['initial_state'] = copy.deepcopy(override)
        ds.append(d)
    div = {'cls': 'S', 'pid': 'div', 'log_states': False,
           'schema': {'agents': {}},
           'update': {'$n': {1: {'agents': {'_divide': {
               'mother': 'm', 'daughters': ds}}}}, '$else': {}}}
    spec = {'processes': {'agents': {'m': {'cell': cell}}},
            'steps': {'div': div}, 'flow': {'div': []},
            'topology': {'div': {'agents': ('agents',)},
                         'agents': {'m': {'cell': {'b': ('b',)}}}},
            'state': {'agents': {'m': state}},
            'script': [('update', 1)]}
    ex = worlds.execute(spec)
    if ex.error:
        acc.violate(fw.violation(
            'C11.crash', f'leak:{type(ex.error[2]).__name__}',
            f'unexpected {ex.error[2]!r}', label))
        return
    agents = probes.pure(ex.engine.state.get_value())['agents']
    got = {k: v.get('b') for k, v in agents.items()}
    want = {f'm{which}': overridden, f'm{1 - which}': mothers}
    if got != want:
        acc.violate(fw.violation(
            'C11.override', 'explicit-initial-state-leaks-to-the-sister',
            f'{kind}: daughter m{which} alone is given the initial state '
            f'{override}: daughters hold {got}, expected {want}', label))


def halves_divider(value, config=None, state=None):
    """A user branch divider (dictionary form, with config): the first
    config['first'] keys to daughter 0, the rest to daughter 1."""
    keys = sorted(value)
    n = (config or {}).get('first', len(keys) // 2)
    return [{k: value[k] for k in keys[:n]},
            {k: value[k] for k in keys[n:]}]


BRANCH_FORMS = {
    'string': 'split_dict',
    'dict': {'divider': 'split_dict'},
    'dict-user': {'divider': halves_divider, 'config': {'first': 1}},
}


def branch_case(job, acc):
    """Branch-level divider above a glob port: split_dict named by a
    string, the same in dictionary form, and a user function in dictionary
    form with a config."""
    _, n_kids, copy_procs = job[:3]
    form = job[3] if len(job) > 3 else 'string'
    label = {'case': f'branch:{form}', 'kids': n_kids,
             'copy_processes': copy_procs, 'job': list(job)}
    cell = {'cls': 'P', 'pid': 'cell', 'ts': 1, 'log_states': False,
            'schema': {'kids': {'_divider': BRANCH_FORMS[form],
                                '*': {'c': {'_default': 0,
                                            '_updater': 'set',
                                            '_emit': True}}}},
            'update': {}}
    ds = []
    for i in (0, 1):
        d = {'key': f'm{i}'}
        if not copy_procs:
            d['processes'] = {'$probes': {'cell': copy.deepcopy(cell)}}
            d['topology'] = {'cell': {'kids': ('kids',)}}
        ds.append(d)
    div = {'cls': 'S', 'pid': 'div', 'log_states': False,
           'schema': {'agents': {}},
           'update': {'$n': {1: {'agents': {'_divide': {
               'mother': 'm', 'daughters': ds}}}}, '$else': {}}}
    spec = {'processes': {'agents': {'m': {'cell': cell}}},
            'steps': {'div': div}, 'flow': {'div': []},
            'topology': {'div': {'agents': ('agents',)},
                         'agents': {'m': {'cell': {'kids': ('kids',)}}}},
            'state': {'agents': {'m': {'kids': {
                f'k{i}': {'c': i + 1} for i in range(n_kids)}}}},
            'script': [('update', 1)]}
    ex = worlds.execute(spec)
    acc.case(key=('branch', n_kids, copy_procs, form), outcome='branch')
    if ex.error:
        acc.violate(fw.violation(
            'C11.crash', f'branch:{type(ex.error[2]).__name__}',
            f'unexpected {ex.error[2]!r}', label))
        return
    agents = ex.engine.state.get_value()['agents']
    k0 = agents.get('m0', {}).get('kids', {})
    k1 = agents.get('m1', {}).get('kids', {})
    want = {f'k{i}': {'c': i + 1} for i in range(n_kids)}
    merged = dict(k0, **k1)
    if form == 'dict-user':
        ok = (set(agents) == {'m0', 'm1'} and merged == want
              and sorted(k0) == sorted(want)[:1]
              and not set(k0) & set(k1))
        if not ok:
            acc.violate(fw.violation(
                'C11.value', 'branch-dict-divider-ignored',
                f'branch divider {{divider: halves, config: first=1}}: '
                f'mother kids {want} -> {k0} / {k1}', label))
        return
    if set(agents) != {'m0', 'm1'} or set(k0) & set(k1) or merged != want \
            or abs(len(k0) - len(k1)) > 1:
        acc.violate(fw.violation(
            'C11.value', 'branch-split_dict-not-a-partition',
            f'mother kids {want} -> {k0} / {k1} (agents {sorted(agents)})',
            label))


def reserve_divider(value, state=None, config=None):
    r = state['reserved']
    return [r, value - r]


TOPO_BRANCHES = [('cyto',), ('membrane',), ('deep', 'inner'),
                 ('deep', 'inner2')]


def topo_case(job, acc):
    """Several variables, in different branches, whose dict dividers
    carry the SAME relative topology text ('..', 'reserved'): each must be
    divided with the neighbour found from its own place."""
    _, reserved, copy_procs, order = job
    label = {'case': 'topology-divider', 'reserved': list(reserved),
             'copy_processes': copy_procs, 'job': list(job)}
    div_schema = {'_default': 0, '_emit': True, '_divider': {
        'divider': reserve_divider,
        'topology': {'reserved': ('..', 'reserved')}}}
    schema, topo, state = {}, {}, {}
    for bi in order:
        br, r = TOPO_BRANCHES[bi], reserved[bi]
        port = 'p' + '_'.join(br)
        schema[port] = {'pool': dict(div_schema),
                        'reserved': {'_default': 0, '_emit': True}}
        topo[port] = br
        node = state
        for k in br[:-1]:
            node = node.setdefault(k, {})
        node[br[-1]] = {'pool': 10, 'reserved': r}
    cell = {'cls': 'P', 'pid': 'cell', 'ts': 1, 'log_states': False,
            'schema': schema, 'update': {}}
    ds = []
    for i in (0, 1):
        d = {'key': f'm{i}'}
        if not copy_procs:
            d['processes'] = {'$probes': {'cell': copy.deepcopy(cell)}}
            d['topology'] = {'cell': dict(topo)}
        ds.append(d)
    div = {'cls': 'S', 'pid': 'div', 'log_states': False,
           'schema': {'agents': {}},
           'update': {'$n': {1: {'agents': {'_divide': {
               'mother': 'm', 'daughters': ds}}}}, '$else': {}}}
    spec = {'processes': {'agents': {'m': {'cell': cell}}},
            'steps': {'div': div}, 'flow': {'div': []},
            'topology': {'div': {'agents': ('agents',)},
                         'agents': {'m': {'cell': dict(topo)}}},
            'state': {'agents': {'m': state}},
            'script': [('update', 1)]}
    ex = worlds.execute(spec)
    acc.case(key=job, outcome='topology-divider')
    if ex.error:
        acc.violate(fw.violation(
            'C11.crash', f'topology-divider:{type(ex.error[2]).__name__}',
            f'unexpected {ex.error[2]!r}', label))
        return
    agents = ex.engine.state.get_value()['agents']
    for bi in order:
        br, r = TOPO_BRANCHES[bi], reserved[bi]
        got = []
        for d in ('m0', 'm1'):
            node = agents.get(d, {})
            for k in br:
                node = node.get(k, {}) if isinstance(node, dict) else {}
            got.append(node.get('pool') if isinstance(node, dict) else None)
        if got != [r, 10 - r]:
            acc.violate(fw.violation(
                'C11.value', 'topology-divider-uses-another-variables-'
                'neighbour',
                f'{"/".join(br)}/pool: the divider promises {[r, 10 - r]} '
                f'(reserved there: {r}), the daughters got {got}; reserved '
                f'values by branch {dict(zip(TOPO_BRANCHES, reserved))}',
                label))
            return


def topo_jobs():
    out = []
    for reserved in itertools.permutations((1, 3, 4, 6)):
        for copy_procs in (False, True):
            for order in ((0, 1, 2, 3), (3, 2, 1, 0), (1, 0), (2, 3),
                          (0, 2)):
                out.append(('topo', reserved, copy_procs, order))
    return out


def jobs(ctx):
    out = []
    cs = cases(ctx)
    gens = BOUNDS[ctx.tier]['generations']
    for ci, case in enumerate(cs):
        for outcome in case['outcomes']:
            for init_on in ((), (0,), (0, 1)):
                for copy_procs in (False, True):
                    for depth in (1, 2):
                        out.append((ci, outcome, init_on, copy_procs,
                                    depth, 1))
            for g in range(2, gens + 1):
                out.append((ci, outcome, (), True, 1, g))
                out.append((ci, outcome, (1,), False, 1, g))
                if not ctx.quick:
                    for init_on in ((), (0,), (1,), (0, 1)):
                        for copy_procs in (False, True):
                            for depth in (1, 2):
                                job = (ci, outcome, init_on, copy_procs,
                                       depth, g)
                                if job not in out[-20:]:
                                    out.append(job)
            if not ctx.quick:
                for copy_procs in (False, True):
                    for depth in (1, 2):
                        out.append((ci, outcome, (1,), copy_procs, depth, 1))
    return out


def run_job(job, acc):
    if job[0] == 'branch':
        branch_case(job, acc)
    elif job[0] == 'composer':
        composer_case(job, acc)
    elif job[0] == 'leak':
        leak_case(job, acc)
    elif job[0] == 'topo':
        topo_case(job, acc)
    else:
        run_case(job, acc)


def run(ctx):
    js = jobs(ctx) + [('branch', n, cp, form) for n in range(5)
                      for cp in (False, True)
                      for form in BRANCH_FORMS] + topo_jobs() + [
        ('composer', True), ('composer', False)] + [
        ('leak', kind, which, cp)
        for kind in ('branch-set', 'dict-leaf') for which in (0, 1)
        for cp in (False, True)]
    return ctx.map(run_job, js)


def replay(case):
    acc = fw.Acc()
    run_job(tuple(tuple(x) if isinstance(x, list) else x
                  for x in case['job']), acc)
    return [v for exs in acc.viol_examples.values() for v in exs]


RULE += (
    ' Branch-level dividers also in dictionary form (named divider, user function with config). Copied processes of the two daughters share no mutable parameter object.')

RULE += (
    ' The split divider is also given quantities with an integer magnitude (7 count, 8 count), under both coin outcomes: the daughters get halves that add up to the mother.')
