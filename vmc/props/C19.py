"""C19 - timeline events fire exactly once, on time, in any listing order."""
import copy
import itertools

from vivarium.core.composition import add_timeline
from vivarium.processes.timeline import TimelineProcess

from vmc import framework as fw
from vmc import probes, worlds

ID = 'C19'
LEVEL = 'exploration'
EXHAUSTIVE = True
RULE = (
    'ALL event lists of length <= 3 (thorough 5) with times from {0, 1, 2, '
    '3, 5} and target variable from {x, y}, in EVERY order, duplicates '
    'included, plus all time sequences of length 4 (6) with an alternating '
    'variable pattern; each event sets its variable to a value that '
    'encodes the event (0 and False among them); timeline timestep in {0.5, 1, 2, 3}; run length 6 '
    'in a real Engine with the real TimelineProcess (directly and through '
    'composition.add_timeline). Oracle: the emitted trajectory equals the '
    '"first tick at which the clock has reached the event time" reference. '
    'Non-trivial when the list has >= 2 events.')
ASSUMPTIONS = [
    'several events that fall due in one tick and set the same variable '
    'are applied in (time, listing) order, so only the last is visible',
    'timeline timesteps divide the run length',
]
BOUNDS = {'quick': {'events': 3, 'patterned': 4},
          'thorough': {'events': 5, 'patterned': 6}}
TIMES = [0, 1, 2, 3, 5]
RUN = 6


VAL_MODE = 'scalar'
Y_STORE = 'env'       # 'global': variable y lives next to the clock


def val(i):
    """The value event i sets: unique per event, and falsy for some; in the
    container modes a fresh one-element list / one-key dictionary."""
    if VAL_MODE == 'list':
        return [100 + i]
    if VAL_MODE == 'dict':
        return {f'k{i}': 100 + i}
    return {0: 0, 1: False}.get(i, 100 + i)


def reference(events, ts):
    """{row time: {'x': v, 'y': v}} for row times ts, 2ts, ... RUN."""
    order = sorted(range(len(events)), key=lambda i: (events[i][0], i))
    pending = list(order)
    cur = {'x': -1, 'y': -1}
    out = {0: dict(cur)}
    k = 0
    fired = []
    while k * ts < RUN:
        clock = k * ts
        due = [i for i in pending if events[i][0] <= clock]
        for i in due:
            var, value = event_effect(events, i)
            if var is not None:
                cur[var] = value
            fired.append((i, k))
        pending = [i for i in pending if i not in due]
        out[min((k + 1) * ts, RUN)] = dict(cur)
        k += 1
    return out, fired


def build_timeline(events):
    """[(time, change dict)]; an event given as (time, var, 'same', j)
    re-uses THE SAME dict object as event j (a shared ON/OFF dictionary)."""
    dicts = []
    for i, ev in enumerate(events):
        if len(ev) > 2 and ev[2] == 'same':
            dicts.append(dicts[ev[3]])
        elif ev[1] is None:
            dicts.append({})          # an empty event (a time marker)
        else:
            dicts.append({((Y_STORE if ev[1] == 'y' else 'env'),
                           ev[1]): val(i)})
    return [(ev[0], d) for ev, d in zip(events, dicts)]


def event_effect(events, i):
    """(variable, value) event i sets."""
    ev = events[i]
    if len(ev) > 2 and ev[2] == 'same':
        return event_effect(events, ev[3])
    return ev[1], val(i)


def run_case(events, ts, via, run=None, clock_rows=False):
    timeline = build_timeline(events)
    given = copy.deepcopy([(t, dict(d)) for t, d in timeline])
    holder = probes.Probe({
        'pid': 'holder', 'ts': 1, 'log_states': False,
        'schema': {'env': {
            # the driven variables declare their own (non-set) updaters:
            # the event's {'_updater': 'set'} must still win
            'x': {'_default': -1, '_updater': 'accumulate', '_emit': True},
            'y': {'_default': -1, '_updater': 'nonnegative_accumulate',
                  '_emit': True}}},
        'update': {}})
    processes = {'holder': holder}
    topology = {'holder': {'env': ('env',)}}
    if Y_STORE == 'global':
        # y is kept in the store that also holds the timeline's clock
        topology['holder'] = {'env': {'_path': ('env',),
                                      'y': ('..', 'global', 'y')}}
    if via == 'add_timeline':
        add_timeline(processes, topology,
                     {'timeline': timeline, 'time_step': ts})
    else:
        processes['timeline'] = TimelineProcess(
            {'timeline': timeline, 'time_step': ts})
        topology['timeline'] = {'global': ('global',), 'env': ('env',)}
        if Y_STORE == 'global' and not any(
                k[0] == 'env' for _, d in timeline for k in d):
            # no event drives the env port: the process does not have it
            del topology['timeline']['env']
    eng = probes.MonitoredEngine(
        processes=processes, topology=topology,
        emitter={'type': 'vmc_probe'}, display_info=False)
    eng.update(RUN if run is None else run)
    if via == 'rerun':
        # the SAME process objects simulated once more, in a new engine
        # that starts from the defaults at time 0
        eng = probes.MonitoredEngine(
            processes=processes, topology=topology,
            emitter={'type': 'vmc_probe'}, display_info=False)
        eng.update(RUN if run is None else run)
    if clock_rows:
        # [(timeline clock variable, env)] per emitted row, in order
        out = []
        for r in eng.emitter.records:
            if r['table'] == 'history':
                env = r['snapshot'].get('env', {})
                out.append((r['snapshot'].get('global', {}).get('time'),
                            {'x': env.get('x'), 'y': env.get('y')}))
        return out
    rows = {}
    for r in eng.emitter.records:
        if r['table'] == 'history':
            env = r['snapshot'].get('env', {})
            rows[r['data']['time']] = {
                'x': env.get('x'),
                'y': r['snapshot'].get(Y_STORE, {}).get('y')}
    now = [(t, dict(d)) for t, d in timeline]
    if now != given:
        rows['_mutated'] = (given, now)
    return rows


def check(events, ts, via, acc):
    case = {'events': [list(e) for e in events], 'ts': ts,
            'via': ('global:' if Y_STORE == 'global' else '') + via}
    V = lambda rule, fp, msg: acc.violate(  # noqa
        fw.violation(rule, fp, msg, case))
    try:
        rows = run_case(events, ts, via)
    except Exception as e:  # noqa
        V('C19.crash', f'{type(e).__name__}:{str(e)[:50]}',
          f'unexpected {e!r}')
        return None
    if '_mutated' in rows:
        given, now = rows.pop('_mutated')
        V('C19.input', 'timeline-passed-in-was-modified',
          f'the change dictionaries handed to TimelineProcess were '
          f'modified: {given} -> {now}')
        return rows
    ref, fired = reference(events, ts)
    seen = {(type(v), v) for r in rows.values() for v in r.values()}
    ref_seen = {(type(v), v) for r in ref.values() for v in r.values()}
    seen = {v for _, v in seen if v is not None}
    ref_seen = {v for _, v in ref_seen}
    for T in sorted(ref):
        if T not in rows:
            continue
        if rows[T] != ref[T] or any(
                type(rows[T][k]) is not type(ref[T][k]) for k in ref[T]):
            missing = sorted(str(v) for v in ref_seen - seen if v != -1)
            if missing:
                fp = 'event-dropped'
            elif any(rows[T][k] != ref[T][k] and rows[T][k] in
                     {ref[t2][k] for t2 in ref if t2 > T}
                     for k in ('x', 'y')):
                fp = 'event-early'
            elif any(rows[T][k] != ref[T][k] and rows[T][k] in
                     {ref[t2][k] for t2 in ref if t2 < T}
                     for k in ('x', 'y')):
                fp = 'event-late-or-stale'
            else:
                fp = 'wrong-value'
            V('C19.trajectory', fp,
              f'ts={ts} via={via} events={events}: at t={T} env={rows[T]}, '
              f'reference {ref[T]} (events never seen: {missing})')
            return rows
    return rows


def check_global(events, ts, via, acc):
    """Variable y lives in the 'global' store, next to the timeline's
    clock: events that set it are applied like any other."""
    global Y_STORE
    Y_STORE = 'global'
    try:
        rows = check(events, ts, via, acc)
    finally:
        Y_STORE = 'env'
    return rows


def check_interfered(kind, ts, acc):
    """Another process writes the driven variable between two events, or
    the compartment that holds the timeline is moved after an event has
    fired: every event still fires exactly once.

    same-value : events (1, x=5) and (4, x=5); the holder sets x=0 in
                 between; the second event sets 5 again
    moved      : one event (1, x=5); a step moves the compartment (with the
                 timeline, its clock and x) at t=3; the holder sets x=0 at
                 t=4: x stays 0 (the event does not fire again)
    """
    case = {'events': kind, 'ts': ts, 'via': f'interfered:{kind}'}
    acc.case(key=('interfered', kind, ts), outcome='interfered')
    V = lambda rule, fp, msg: acc.violate(  # noqa
        fw.violation(rule, fp, msg, case))
    timeline = [(1, {('env', 'x'): 5})]
    if kind == 'same-value':
        timeline.append((4, {('env', 'x'): 5}))
    holder = probes.Probe({
        'pid': 'holder', 'ts': 1, 'log_states': False,
        'schema': {'env': {'x': {'_default': -1, '_updater': 'accumulate',
                                 '_emit': True}}},
        'update': {'$n': {3: {'env': {'x': {'_value': 0,
                                            '_updater': 'set'}}}},
                   '$else': {}}})
    processes = {'A': {'c': {
        'holder': holder,
        'timeline': TimelineProcess({'timeline': timeline,
                                     'time_step': ts})}}}
    topology = {'A': {'c': {
        'holder': {'env': ('env',)},
        'timeline': {'global': ('global',), 'env': ('env',)}}}}
    kw = {}
    if kind == 'moved':
        mover = probes.ProbeStep({
            'pid': 'mover', 'log_states': False,
            'schema': {'A': {'*': {}}, 'B': {'*': {}}},
            'update': {'$n': {3: {'A': {'_move': [{
                'source': ('c',), 'target': 'B'}]}}}, '$else': {}}})
        kw = {'steps': {'mover': mover}, 'flow': {'mover': []}}
        topology['mover'] = {'A': ('A',), 'B': ('B',)}
    try:
        eng = probes.MonitoredEngine(
            processes=processes, topology=topology,
            emitter={'type': 'vmc_probe'}, display_info=False, **kw)
        eng.update(8)
    except Exception as e:  # noqa
        V('C19.crash', f'interfered:{type(e).__name__}:{str(e)[:40]}',
          f'unexpected {e!r}')
        return
    xs = {}
    for r in eng.emitter.records:
        if r['table'] != 'history':
            continue
        snap = r['snapshot']
        comp = (snap.get('A') or {}).get('c') or \
            (snap.get('B') or {}).get('c') or {}
        xs[r['data']['time']] = comp.get('env', {}).get('x')
    # the event at time 1 fires at the first tick at which the clock has
    # reached 1; the holder's set (invocation 3) lands at t=4; a second
    # event (time 4) fires at the first tick with clock >= 4
    first = min(t for t in xs if t - ts >= 1 and (t / ts) == int(t / ts))
    want = {}
    for t in sorted(xs):
        v = -1
        if t >= first:
            v = 5
        if t >= 4:
            v = 0
        if kind == 'same-value':
            second = min(u for u in xs if u - ts >= 4 and
                         (u / ts) == int(u / ts))
            if t >= second:
                v = 5
        want[t] = v
    if xs != want:
        bad = next(t for t in sorted(xs) if xs[t] != want[t])
        V('C19.trajectory', f'interfered-{kind}',
          f'{kind}, timeline timestep {ts}: x over time {xs}, expected '
          f'{want} (first difference at t={bad})')


def check_container(events, ts, mode, acc):
    """Events whose values are lists / dictionaries: a variable holds the
    value of the LAST due event that names it (its updater is 'set'), not
    a combination of the values of all events that fell due in the tick,
    and the values handed in are never modified."""
    global VAL_MODE
    case = {'events': [list(e) for e in events], 'ts': ts,
            'via': f'container:{mode}'}
    V = lambda rule, fp, msg: acc.violate(  # noqa
        fw.violation(rule, fp, msg, case))
    VAL_MODE = mode
    try:
        try:
            rows = run_case(events, ts, 'direct')
        except Exception as e:  # noqa
            V('C19.crash', f'{type(e).__name__}:{str(e)[:50]}',
              f'unexpected {e!r}')
            return
        if '_mutated' in rows:
            given, now = rows.pop('_mutated')
            V('C19.input', 'timeline-passed-in-was-modified',
              f'the change dictionaries handed to TimelineProcess were '
              f'modified: {given} -> {now}')
            return
        ref, _ = reference(events, ts)
    finally:
        VAL_MODE = 'scalar'
    for T in sorted(ref):
        if T in rows and rows[T] != ref[T]:
            V('C19.trajectory', 'container-valued-trajectory-differs',
              f'ts={ts} {mode}-valued events={events}: at t={T} '
              f'env={rows[T]}, reference {ref[T]}')
            return


# ----------------------------------------------------------------------
# timesteps that are not exact in binary: "the clock has reached the event
# time" is judged on the clock variable the simulation itself reports

FLOAT_TIMES = [0.2, 0.3, 0.6, 0.9, 1.0]
FLOAT_RUN = 1.5


def check_float(events, ts, acc):
    case = {'events': [list(e) for e in events], 'ts': ts, 'via': 'float'}
    V = lambda rule, fp, msg: acc.violate(  # noqa
        fw.violation(rule, fp, msg, case))
    try:
        rows = run_case(events, ts, 'direct', run=FLOAT_RUN,
                        clock_rows=True)
    except Exception as e:  # noqa
        V('C19.crash', f'{type(e).__name__}:{str(e)[:50]}',
          f'unexpected {e!r}')
        return
    order = sorted(range(len(events)), key=lambda i: (events[i][0], i))
    pending = list(order)
    cur = {'x': -1, 'y': -1}
    prev_clock = None
    n_ticks = 0
    for clock, env in rows:
        if prev_clock is not None and clock != prev_clock:
            # a tick of the timeline process ran with clock = prev_clock
            n_ticks += 1
            due = [i for i in pending if events[i][0] <= prev_clock]
            for i in due:
                var, value = event_effect(events, i)
                if var is not None:
                    cur[var] = value
            pending = [i for i in pending if i not in due]
        if env != cur or any(type(env[k]) is not type(cur[k]) for k in cur):
            early = any(env[k] != cur[k] and env[k] in
                        [event_effect(events, i)[1] for i in pending]
                        for k in cur)
            V('C19.trajectory', 'event-early' if early else
              'event-late-or-dropped',
              f'ts={ts} events={events}: when the timeline clock reads '
              f'{clock!r} env={env}, reference {cur} (an event fires at '
              f'the first tick whose clock value is >= its time)')
            return
        prev_clock = clock
    if n_ticks < 3:
        V('C19.trajectory', 'float-world-vacuous',
          f'ts={ts}: only {n_ticks} ticks observed')


SCRIPTS = [
    [('run_for', 4, False), ('run_for', 1, True), ('update', 4)],
    [('run_for', 2.5, False), ('update', 3.5), ('update', 3)],
    [('run_for', 1, False), ('run_for', 1, False), ('run_for', 2, True),
     ('update', 5)],
]


def check_scripted(events, ts, si, acc):
    """Caller-managed run_for() sequences: the timeline's clock variable
    equals the engine's time after every forcing call, and events fire at
    the first tick whose clock value has reached their time."""
    script = SCRIPTS[si]
    case = {'events': [list(e) for e in events], 'ts': ts,
            'via': f'script{si}'}
    V = lambda rule, fp, msg: acc.violate(  # noqa
        fw.violation(rule, fp, msg, case))
    timeline = build_timeline(events)
    holder = probes.Probe({
        'pid': 'holder', 'ts': 1, 'log_states': False,
        'schema': {'env': {
            'x': {'_default': -1, '_updater': 'accumulate', '_emit': True},
            'y': {'_default': -1, '_updater': 'nonnegative_accumulate',
                  '_emit': True}}}, 'update': {}})
    try:
        eng = probes.MonitoredEngine(
            processes={'holder': holder, 'timeline': TimelineProcess(
                {'timeline': timeline, 'time_step': ts})},
            topology={'holder': {'env': ('env',)},
                      'timeline': {'global': ('global',),
                                   'env': ('env',)}},
            emitter={'type': 'vmc_probe'}, display_info=False)
        order = sorted(range(len(events)), key=lambda i: (events[i][0], i))
        pending = list(order)
        cur = {'x': -1, 'y': -1}
        seen = 0
        prev_clock = 0
        for call in script:
            if call[0] == 'update':
                eng.update(call[1])
            else:
                eng.run_for(call[1], force_complete=call[2])
            recs = [r for r in eng.emitter.records
                    if r['table'] == 'history']
            for r in recs[seen:]:
                clock = r['snapshot'].get('global', {}).get('time')
                env = r['snapshot'].get('env', {})
                if clock != prev_clock:
                    due = [i for i in pending
                           if events[i][0] <= prev_clock]
                    for i in due:
                        var, value = event_effect(events, i)
                        if var is not None:
                            cur[var] = value
                    pending = [i for i in pending if i not in due]
                if {'x': env.get('x'), 'y': env.get('y')} != cur:
                    V('C19.trajectory', 'event-late-or-dropped',
                      f'ts={ts} script {script} events={events}: when the '
                      f'timeline clock reads {clock!r} (engine time '
                      f'{r["data"]["time"]}) env={env}, reference {cur}')
                    return
                prev_clock = clock
            seen = len(recs)
            forcing = call[0] == 'update' or call[2]
            clk = eng.state.get_value()['global']['time']
            if forcing and clk != eng.global_time:
                V('C19.trajectory', 'timeline-clock-differs-from-engine-time',
                  f'ts={ts} script {script}: after the forcing call {call} '
                  f'the timeline clock reads {clk}, the engine time is '
                  f'{eng.global_time}')
                return
    except Exception as e:  # noqa
        V('C19.crash', f'{type(e).__name__}:{str(e)[:50]}',
          f'unexpected {e!r}')


def float_event_lists(ctx):
    alphabet = list(itertools.product(FLOAT_TIMES, ('x', 'y')))
    out = []
    for n in range(1, 3 if ctx.quick else 4):
        out += [tuple(c) for c in itertools.product(alphabet, repeat=n)]
    return out


def scripted_event_lists(ctx):
    alphabet = list(itertools.product((0, 2, 5, 7), ('x', 'y')))
    out = []
    for n in (1, 2):
        out += [tuple(c) for c in itertools.product(alphabet, repeat=n)]
    return out


def event_lists(ctx):
    b = BOUNDS[ctx.tier]
    alphabet = list(itertools.product(TIMES, ('x', 'y')))
    out = []
    for n in range(1, b['events'] + 1):
        out += [tuple(c) for c in itertools.product(alphabet, repeat=n)]
    n = b['patterned']
    for times in itertools.product(TIMES, repeat=n):
        out.append(tuple((t, 'xy'[i % 2]) for i, t in enumerate(times)))
    # lists that hold an EMPTY event (a bare time marker) among others
    alphabet3 = list(itertools.product(TIMES[:4], ('x', None)))
    for c in itertools.product(alphabet3, repeat=3):
        if any(e[1] is None for e in c) and any(e[1] for e in c):
            out.append(tuple(c))
    # one dictionary object re-used by two events at different times, with
    # another event at the time of its second use (every listing order)
    for t1, t2 in itertools.combinations(TIMES, 2):
        base = [(t1, 'x'), (t2, 'x', 'same', 0), (t2, 'y')]
        for perm in itertools.permutations(range(3)):
            if perm.index(1) < perm.index(0):
                continue           # 'same' must follow the event it shares
            evs = []
            remap = {}
            for new_i, old_i in enumerate(perm):
                remap[old_i] = new_i
            for old_i in perm:
                ev = base[old_i]
                if len(ev) > 2:
                    ev = (ev[0], ev[1], 'same', remap[ev[3]])
                evs.append(ev)
            out.append(tuple(evs))
    return out


def run_job(job, acc):
    if job[0] == 'scripted':
        for ts in (3, 2, 1.5):
            for si in range(len(SCRIPTS)):
                check_scripted(job[1], ts, si, acc)
                acc.case(key=('scripted', job[1], ts, si),
                         outcome='scripted', nontrivial=True)
        return
    if job[0] == 'float':
        for ts in (0.1, 0.3):
            check_float(job[1], ts, acc)
            acc.case(key=('float', job[1], ts), outcome='float',
                     nontrivial=True)
        return
    if job[0] == 'interfered':
        # (timestep 1 only: every write lands in a batch of its own, and
        # the moved processes are idle when the mover step runs)
        check_interfered(job[1], 1, acc)
        return
    if job[0] == 'global':
        for ts, via in itertools.product((1, 2, 3),
                                         ('direct', 'add_timeline')):
            check_global(job[1], ts, via, acc)
            acc.case(key=('global', job[1], ts, via), outcome='global',
                     nontrivial=len(job[1]) >= 2)
        return
    if job[0] == 'container':
        for ts, mode in itertools.product((1, 2, 3), ('list', 'dict')):
            check_container(job[1], ts, mode, acc)
            acc.case(key=('container', job[1], ts, mode),
                     outcome='container', nontrivial=len(job[1]) >= 2)
        return
    events, = job[:1]
    for ts in (0.5, 1, 2, 3):
        for via in (('direct', 'add_timeline', 'rerun')
                    if len(events) <= 2 else ('direct',)):
            rows = check(events, ts, via, acc)
            acc.case(key=(events, ts, via), outcome=f'n={len(events)}',
                     nontrivial=len(events) >= 2)
            if rows is not None and len(acc.samples) < 3 and \
                    len(events) == 3 and len({e[0] for e in events}) == 2:
                acc.sample({'events': events, 'ts': ts,
                            'trajectory': {str(k): v
                                           for k, v in rows.items()}})


def run(ctx):
    return ctx.map(run_job, [(e,) for e in event_lists(ctx)] +
                   [('container', e) for e in event_lists(ctx)
                    if len(e) <= 3] +
                   [('global', e) for e in event_lists(ctx)
                    if len(e) <= 3 and any(ev[1] == 'y' for ev in e)] +
                   [('interfered', k) for k in ('same-value', 'moved')] +
                   [('float', e) for e in float_event_lists(ctx)] +
                   [('scripted', e) for e in scripted_event_lists(ctx)])


def replay(case):
    acc = fw.Acc()
    if str(case['via']).startswith('script'):
        check_scripted(tuple(tuple(e) for e in case['events']), case['ts'],
                       int(case['via'][6:]), acc)
    elif str(case['via']).startswith('interfered:'):
        check_interfered(case['events'], case['ts'], acc)
    elif str(case['via']).startswith('global:'):
        check_global(tuple(tuple(e) for e in case['events']), case['ts'],
                     case['via'].split(':')[1], acc)
    elif str(case['via']).startswith('container:'):
        check_container(tuple(tuple(e) for e in case['events']), case['ts'],
                        case['via'].split(':')[1], acc)
    elif case['via'] == 'float':
        check_float(tuple(tuple(e) for e in case['events']), case['ts'],
                    acc)
    else:
        check(tuple(tuple(e) for e in case['events']), case['ts'],
              case['via'], acc)
    return [v for exs in acc.viol_examples.values() for v in exs]


RULE += (
    ' Also via=rerun: the same TimelineProcess object simulated a second time in a new engine.')

RULE += (
    " Scripted runs (sequences of update()/run_for(.., force_complete) calls with run lengths that cut a tick): after every call the timeline clock equals the engine time reached by the timeline process and every due event has fired exactly once. Empty events (time markers) between non-empty ones delay nothing. Container-valued events (one-element lists, one-key dictionaries): the last due event's value is what the variable holds, values of several events due in one tick are never combined, the values handed in are never modified.")

RULE += (
    ' Global mode: variable y is kept in the store that holds the timeline clock (events name it as (global, y)); event lists of length <= 3 that set y, timesteps 1-3, wired directly and through add_timeline.')

RULE += (
    ' Interfered worlds: two events give one variable the same value while another process resets it in between (the second event still fires); the compartment that holds the timeline, its clock and the variable is moved after the event has fired (it does not fire again).')
