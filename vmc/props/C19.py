"""C19 - timeline events fire exactly once, on time, in any listing order."""
import copy
import itertools

from vivarium.core.composition import add_timeline
from vivarium.processes.timeline import TimelineProcess

from vmc import framework as fw
from vmc import probes, worlds

ID = 'C19'
LEVEL = 'exploration'
EXHAUSTIVE = True
RULE = (
    'ALL event lists of length <= 3 (thorough 5) with times from {0, 1, 2, '
    '3, 5} and target variable from {x, y}, in EVERY order, duplicates '
    'included, plus all time sequences of length 4 (6) with an alternating '
    'variable pattern; each event sets its variable to a value that '
    'encodes the event (0 and False among them); timeline timestep in {0.5, 1, 2, 3}; run length 6 '
    'in a real Engine with the real TimelineProcess (directly and through '
    'composition.add_timeline). Oracle: the emitted trajectory equals the '
    '"first tick at which the clock has reached the event time" reference. '
    'Non-trivial when the list has >= 2 events.')
ASSUMPTIONS = [
    'several events that fall due in one tick and set the same variable '
    'are applied in (time, listing) order, so only the last is visible',
    'timeline timesteps divide the run length',
]
BOUNDS = {'quick': {'events': 3, 'patterned': 4},
          'thorough': {'events': 5, 'patterned': 6}}
TIMES = [0, 1, 2, 3, 5]
RUN = 6


def val(i):
    """The value event i sets: unique per event, and falsy for some."""
    return {0: 0, 1: False}.get(i, 100 + i)


def reference(events, ts):
    """{row time: {'x': v, 'y': v}} for row times ts, 2ts, ... RUN."""
    order = sorted(range(len(events)), key=lambda i: (events[i][0], i))
    pending = list(order)
    cur = {'x': -1, 'y': -1}
    out = {0: dict(cur)}
    k = 0
    fired = []
    while k * ts < RUN:
        clock = k * ts
        due = [i for i in pending if events[i][0] <= clock]
        for i in due:
            var, value = event_effect(events, i)
            cur[var] = value
            fired.append((i, k))
        pending = [i for i in pending if i not in due]
        out[min((k + 1) * ts, RUN)] = dict(cur)
        k += 1
    return out, fired


def build_timeline(events):
    """[(time, change dict)]; an event given as (time, var, 'same', j)
    re-uses THE SAME dict object as event j (a shared ON/OFF dictionary)."""
    dicts = []
    for i, ev in enumerate(events):
        if len(ev) > 2 and ev[2] == 'same':
            dicts.append(dicts[ev[3]])
        else:
            dicts.append({('env', ev[1]): val(i)})
    return [(ev[0], d) for ev, d in zip(events, dicts)]


def event_effect(events, i):
    """(variable, value) event i sets."""
    ev = events[i]
    if len(ev) > 2 and ev[2] == 'same':
        return event_effect(events, ev[3])
    return ev[1], val(i)


def run_case(events, ts, via, run=None, clock_rows=False):
    timeline = build_timeline(events)
    given = copy.deepcopy([(t, dict(d)) for t, d in timeline])
    holder = probes.Probe({
        'pid': 'holder', 'ts': 1, 'log_states': False,
        'schema': {'env': {
            # the driven variables declare their own (non-set) updaters:
            # the event's {'_updater': 'set'} must still win
            'x': {'_default': -1, '_updater': 'accumulate', '_emit': True},
            'y': {'_default': -1, '_updater': 'nonnegative_accumulate',
                  '_emit': True}}},
        'update': {}})
    processes = {'holder': holder}
    topology = {'holder': {'env': ('env',)}}
    if via == 'add_timeline':
        add_timeline(processes, topology,
                     {'timeline': timeline, 'time_step': ts})
    else:
        processes['timeline'] = TimelineProcess(
            {'timeline': timeline, 'time_step': ts})
        topology['timeline'] = {'global': ('global',), 'env': ('env',)}
    eng = probes.MonitoredEngine(
        processes=processes, topology=topology,
        emitter={'type': 'vmc_probe'}, display_info=False)
    eng.update(RUN if run is None else run)
    if via == 'rerun':
        # the SAME process objects simulated once more, in a new engine
        # that starts from the defaults at time 0
        eng = probes.MonitoredEngine(
            processes=processes, topology=topology,
            emitter={'type': 'vmc_probe'}, display_info=False)
        eng.update(RUN if run is None else run)
    if clock_rows:
        # [(timeline clock variable, env)] per emitted row, in order
        out = []
        for r in eng.emitter.records:
            if r['table'] == 'history':
                env = r['snapshot'].get('env', {})
                out.append((r['snapshot'].get('global', {}).get('time'),
                            {'x': env.get('x'), 'y': env.get('y')}))
        return out
    rows = {}
    for r in eng.emitter.records:
        if r['table'] == 'history':
            env = r['snapshot'].get('env', {})
            rows[r['data']['time']] = {'x': env.get('x'), 'y': env.get('y')}
    now = [(t, dict(d)) for t, d in timeline]
    if now != given:
        rows['_mutated'] = (given, now)
    return rows


def check(events, ts, via, acc):
    case = {'events': [list(e) for e in events], 'ts': ts, 'via': via}
    V = lambda rule, fp, msg: acc.violate(  # noqa
        fw.violation(rule, fp, msg, case))
    try:
        rows = run_case(events, ts, via)
    except Exception as e:  # noqa
        V('C19.crash', f'{type(e).__name__}:{str(e)[:50]}',
          f'unexpected {e!r}')
        return None
    if '_mutated' in rows:
        given, now = rows.pop('_mutated')
        V('C19.input', 'timeline-passed-in-was-modified',
          f'the change dictionaries handed to TimelineProcess were '
          f'modified: {given} -> {now}')
        return rows
    ref, fired = reference(events, ts)
    seen = {(type(v), v) for r in rows.values() for v in r.values()}
    ref_seen = {(type(v), v) for r in ref.values() for v in r.values()}
    seen = {v for _, v in seen if v is not None}
    ref_seen = {v for _, v in ref_seen}
    for T in sorted(ref):
        if T not in rows:
            continue
        if rows[T] != ref[T] or any(
                type(rows[T][k]) is not type(ref[T][k]) for k in ref[T]):
            missing = sorted(str(v) for v in ref_seen - seen if v != -1)
            if missing:
                fp = 'event-dropped'
            elif any(rows[T][k] != ref[T][k] and rows[T][k] in
                     {ref[t2][k] for t2 in ref if t2 > T}
                     for k in ('x', 'y')):
                fp = 'event-early'
            elif any(rows[T][k] != ref[T][k] and rows[T][k] in
                     {ref[t2][k] for t2 in ref if t2 < T}
                     for k in ('x', 'y')):
                fp = 'event-late-or-stale'
            else:
                fp = 'wrong-value'
            V('C19.trajectory', fp,
              f'ts={ts} via={via} events={events}: at t={T} env={rows[T]}, '
              f'reference {ref[T]} (events never seen: {missing})')
            return rows
    return rows


# ----------------------------------------------------------------------
# timesteps that are not exact in binary: "the clock has reached the event
# time" is judged on the clock variable the simulation itself reports

FLOAT_TIMES = [0.2, 0.3, 0.6, 0.9, 1.0]
FLOAT_RUN = 1.5


def check_float(events, ts, acc):
    case = {'events': [list(e) for e in events], 'ts': ts, 'via': 'float'}
    V = lambda rule, fp, msg: acc.violate(  # noqa
        fw.violation(rule, fp, msg, case))
    try:
        rows = run_case(events, ts, 'direct', run=FLOAT_RUN,
                        clock_rows=True)
    except Exception as e:  # noqa
        V('C19.crash', f'{type(e).__name__}:{str(e)[:50]}',
          f'unexpected {e!r}')
        return
    order = sorted(range(len(events)), key=lambda i: (events[i][0], i))
    pending = list(order)
    cur = {'x': -1, 'y': -1}
    prev_clock = None
    n_ticks = 0
    for clock, env in rows:
        if prev_clock is not None and clock != prev_clock:
            # a tick of the timeline process ran with clock = prev_clock
            n_ticks += 1
            due = [i for i in pending if events[i][0] <= prev_clock]
            for i in due:
                var, value = event_effect(events, i)
                cur[var] = value
            pending = [i for i in pending if i not in due]
        if env != cur or any(type(env[k]) is not type(cur[k]) for k in cur):
            early = any(env[k] != cur[k] and env[k] in
                        [event_effect(events, i)[1] for i in pending]
                        for k in cur)
            V('C19.trajectory', 'event-early' if early else
              'event-late-or-dropped',
              f'ts={ts} events={events}: when the timeline clock reads '
              f'{clock!r} env={env}, reference {cur} (an event fires at '
              f'the first tick whose clock value is >= its time)')
            return
        prev_clock = clock
    if n_ticks < 3:
        V('C19.trajectory', 'float-world-vacuous',
          f'ts={ts}: only {n_ticks} ticks observed')


def float_event_lists(ctx):
    alphabet = list(itertools.product(FLOAT_TIMES, ('x', 'y')))
    out = []
    for n in range(1, 3 if ctx.quick else 4):
        out += [tuple(c) for c in itertools.product(alphabet, repeat=n)]
    return out


def event_lists(ctx):
    b = BOUNDS[ctx.tier]
    alphabet = list(itertools.product(TIMES, ('x', 'y')))
    out = []
    for n in range(1, b['events'] + 1):
        out += [tuple(c) for c in itertools.product(alphabet, repeat=n)]
    n = b['patterned']
    for times in itertools.product(TIMES, repeat=n):
        out.append(tuple((t, 'xy'[i % 2]) for i, t in enumerate(times)))
    # one dictionary object re-used by two events at different times, with
    # another event at the time of its second use (every listing order)
    for t1, t2 in itertools.combinations(TIMES, 2):
        base = [(t1, 'x'), (t2, 'x', 'same', 0), (t2, 'y')]
        for perm in itertools.permutations(range(3)):
            if perm.index(1) < perm.index(0):
                continue           # 'same' must follow the event it shares
            evs = []
            remap = {}
            for new_i, old_i in enumerate(perm):
                remap[old_i] = new_i
            for old_i in perm:
                ev = base[old_i]
                if len(ev) > 2:
                    ev = (ev[0], ev[1], 'same', remap[ev[3]])
                evs.append(ev)
            out.append(tuple(evs))
    return out


def run_job(job, acc):
    if job[0] == 'float':
        for ts in (0.1, 0.3):
            check_float(job[1], ts, acc)
            acc.case(key=('float', job[1], ts), outcome='float',
                     nontrivial=True)
        return
    events, = job[:1]
    for ts in (0.5, 1, 2, 3):
        for via in (('direct', 'add_timeline', 'rerun')
                    if len(events) <= 2 else ('direct',)):
            rows = check(events, ts, via, acc)
            acc.case(key=(events, ts, via), outcome=f'n={len(events)}',
                     nontrivial=len(events) >= 2)
            if rows is not None and len(acc.samples) < 3 and \
                    len(events) == 3 and len({e[0] for e in events}) == 2:
                acc.sample({'events': events, 'ts': ts,
                            'trajectory': {str(k): v
                                           for k, v in rows.items()}})


def run(ctx):
    return ctx.map(run_job, [(e,) for e in event_lists(ctx)] +
                   [('float', e) for e in float_event_lists(ctx)])


def replay(case):
    acc = fw.Acc()
    if case['via'] == 'float':
        check_float(tuple(tuple(e) for e in case['events']), case['ts'],
                    acc)
    else:
        check(tuple(tuple(e) for e in case['events']), case['ts'],
              case['via'], acc)
    return [v for exs in acc.viol_examples.values() for v in exs]


RULE += (
    ' Also via=rerun: the same TimelineProcess object simulated a second time in a new engine.')
