"""C17 - hierarchy paths obey a consistent path algebra (exhaustive)."""
import copy
import itertools

from vivarium.core.store import Store, hierarchy_depth
from vivarium.core.process import assoc_in
from vivarium.library.topology import (
    get_in, assoc_path, delete_in, update_in, paths_to_dict, dict_to_paths,
    normalize_path)

from vmc import framework as fw

ID = 'C17'
LEVEL = 'exploration'
EXHAUSTIVE = True
RULE = (
    'ALL trees of depth <= 3 over keys {a, b} (every node a leaf or a '
    'branch with a non-empty subset of children), every node as start, ALL '
    'paths of length <= 4 over {a, b, ..}; store laws on walks that stay '
    'inside the tree, dictionary-helper laws on all paths (incl. missing '
    'keys and the empty path), all node pairs for path_to. One evaluation '
    '= one (tree, start, path) or (tree, node pair) or (dict, path) law '
    'instance; non-trivial when the path is non-empty.')
ASSUMPTIONS = [
    'a walk through ".." above the root is outside the store laws (the '
    'store raises or returns None there); lexical normalisation keeps such '
    'leading ".." segments',
    'hierarchy_depth / dict_to_paths inverse laws are stated for '
    'leaf-valued trees without empty branches',
]
BOUNDS = {'quick': {'depth': 3, 'path_len': 3},
          'thorough': {'depth': 3, 'path_len': 5}}
KEYS = ('a', 'b')


def trees(depth):
    """All trees: a leaf (int marker) or a dict over a non-empty subset of
    KEYS whose values are trees of smaller depth."""
    if depth == 0:
        return ['L']
    sub = trees(depth - 1)
    out = ['L']
    for keys in (('a',), ('b',), ('a', 'b')):
        for combo in itertools.product(sub, repeat=len(keys)):
            out.append(dict(zip(keys, combo)))
    return out


def number_leaves(tree, counter=None, path=()):
    counter = counter if counter is not None else itertools.count()
    if tree == 'L':
        return ('leaf', next(counter))
    return {k: number_leaves(v, counter, path + (k,))
            for k, v in tree.items()}


def to_config(tree):
    if not isinstance(tree, dict):
        return {'_default': tree[1], '_value': tree[1]}
    return {k: to_config(v) for k, v in tree.items()}


def to_plain(tree):
    if not isinstance(tree, dict):
        return tree[1]
    return {k: to_plain(v) for k, v in tree.items()}


def nodes(tree, path=()):
    out = [path]
    if isinstance(tree, dict):
        for k, v in tree.items():
            out += nodes(v, path + (k,))
    return out


def walk(tree_nodes, start, path):
    """Reference walk on node paths; None if it leaves the tree."""
    cur = tuple(start)
    for seg in path:
        if seg == '..':
            if not cur:
                return None
            cur = cur[:-1]
        else:
            cur = cur + (seg,)
            if cur not in tree_nodes:
                return None
    return cur


def ref_normalize(path):
    out = []
    for seg in path:
        if seg == '..' and out and out[-1] != '..':
            out.pop()
        elif seg == '..' and not out:
            out.append(seg)
        else:
            out.append(seg)
    return tuple(out)


def all_paths(maxlen, alphabet=('a', 'b', '..')):
    for n in range(maxlen + 1):
        for p in itertools.product(alphabet, repeat=n):
            yield p


def intern_tree(shape, pool=None):
    """The tree with all leaves 7 in which structurally equal sub-dicts
    are ONE object (a spec reused under several keys)."""
    pool = pool if pool is not None else {}
    if shape == 'L':
        return 7
    key = fw.jdump(shape)
    if key not in pool:
        pool[key] = {k: intern_tree(v, pool) for k, v in shape.items()}
    return pool[key]


def run_shared(job, acc):
    """Enumeration laws on trees whose equal sub-dicts are shared
    objects: the laws speak about tree shape, not object identity."""
    _, shape = job
    plain = intern_tree(shape)
    acc.case(key=('enum-shared', fw.jdump(shape)))
    case = {'law': 'enum-shared', 'tree': shape}
    V = lambda rule, fp, msg: acc.violate(  # noqa
        fw.violation(rule, fp, msg, case))
    ref_leaves = _ref_leaves(plain)
    leaf_paths = dict(dict_to_paths((), plain))
    if leaf_paths != ref_leaves:
        V('C17.enum', 'dict_to_paths-wrong-leaves',
          f'shared sub-dicts: dict_to_paths gives {leaf_paths}, expected '
          f'{ref_leaves}')
        return
    if dict(hierarchy_depth(plain)) != ref_leaves:
        V('C17.enum', 'hierarchy_depth-disagrees',
          f'shared sub-dicts: hierarchy_depth '
          f'{dict(hierarchy_depth(plain))} vs {ref_leaves}')
        return
    if paths_to_dict(dict_to_paths((), plain)) != plain:
        V('C17.enum', 'paths_to_dict-not-inverse',
          f'shared sub-dicts: paths_to_dict(dict_to_paths(d)) != d for '
          f'{plain}')


def run_moves(job, acc):
    """The path laws after a subtree was re-attached elsewhere (what a
    _move does: add_node under the target, then delete the source entry):
    every node of the moved subtree - asked for its path BEFORE the move as
    well - reports its new path, and path_to still leads from any node to
    any other."""
    _, tree_shape = job
    tree = number_leaves(tree_shape)
    node_paths = sorted(nodes(tree))
    branches = [p for p in node_paths
                if isinstance(_sub(tree, p), dict)]
    for src in node_paths:
        if not src:
            continue
        for dst in branches:
            if dst[:len(src)] == src or dst == src[:-1]:
                continue        # into itself / already there
            acc.case(key=('move', tree_shape, src, dst))
            case = {'law': 'move', 'tree': tree_shape, 'src': src,
                    'dst': dst}
            root = Store(to_config(tree))
            by_path = {p: root.get_path(p) for p in node_paths}
            for n in by_path.values():
                n.path_for()            # asked before the move
            moved = by_path[src]
            # re-attached under a single new key, or two levels down (a
            # _move whose source path has two elements)
            via = ('moved',) if (len(src) + len(dst)) % 2 == 0 else (
                'via', 'moved')
            by_path[dst].add_node(via, moved)
            by_path[src[:-1]]._delete_path((src[-1],))
            now = {}
            for p, n in by_path.items():
                now[dst + via + p[len(src):]
                    if p[:len(src)] == src else p] = n
            if len(via) == 2:
                now[dst + ('via',)] = by_path[dst].get_path(('via',))
            bad = None
            for p, n in now.items():
                if n.path_for() != p or root.get_path(n.path_for()) \
                        is not n:
                    bad = (f'node moved from {src} under {dst}: a node now '
                           f'at {p} reports path_for() = {n.path_for()}')
                    break
            if bad is None:
                for pa, a in now.items():
                    for pb, b in now.items():
                        try:
                            ok = a.get_path(a.path_to(b)) is b
                        except Exception:  # noqa
                            ok = False
                        if not ok:
                            bad = (f'node moved from {src} under {dst}: '
                                   f'{pa}.path_to({pb}) = {a.path_to(b)} '
                                   f'does not lead there')
                            break
                    if bad:
                        break
            if bad:
                acc.violate(fw.violation(
                    'C17.path_for', 'stale-path-after-move', bad, case))
                return


def run_process_node(job, acc):
    """The path laws from a node that HOLDS A PROCESS: '..' leads to its
    parent, path_to leads to every other node, path_for leads back."""
    from vmc import probes
    _, tree_shape = job
    tree = number_leaves(tree_shape)
    node_paths = sorted(nodes(tree))
    branches = [p for p in node_paths if isinstance(_sub(tree, p), dict)]
    for home in branches:
        acc.case(key=('process-node', tree_shape, home))
        case = {'law': 'process-node', 'tree': tree_shape, 'home': home}
        root = Store(to_config(tree))
        proc = probes.Probe({'pid': 'proc', 'log_states': False,
                             'schema': {'port': {'pv': {'_default': 0}}}})
        root.generate(home, {'zproc': proc}, {}, {},
                      {'zproc': {'port': ('zstore',)}}, {})
        pnode = root.get_path(home + ('zproc',))
        every = {p: n for p, n in root.depth()}
        bad = None
        if pnode.path_for() != home + ('zproc',) or \
                root.get_path(pnode.path_for()) is not pnode:
            bad = f'path_for() of the process node = {pnode.path_for()}'
        elif pnode.get_path(('..',)) is not root.get_path(home):
            bad = (f"'..' from the process node at {home + ('zproc',)} "
                   f"reaches {pnode.get_path(('..',)).path_for()}")
        else:
            for p, n in every.items():
                for a, b in ((pnode, n), (n, pnode)):
                    try:
                        ok = a.get_path(a.path_to(b)) is b
                    except Exception:  # noqa
                        ok = False
                    if not ok:
                        bad = (f'{a.path_for()}.path_to({b.path_for()}) = '
                               f'{a.path_to(b)} does not lead there')
                        break
                if bad:
                    break
        if bad:
            acc.violate(fw.violation(
                'C17.walk', 'process-node-path-law', bad, case))
            return


def run_establish(job, acc):
    """Wiring a port ESTABLISHES its path: every path over {a (exists), n
    and m (new keys), ..} that stays inside the tree, from a process at
    the root or inside a compartment. The port's variable then lives at
    the normal form of the path, walking the path from the process's
    parent reaches that very node, and no store is ever NAMED '..'."""
    from vivarium.core.store import generate_state
    from vmc import probes
    _, loc = job
    for p in all_paths(4, ('a', 'n', 'm', '..')):
        depth, ok = len(loc), bool(p)
        for seg in p:
            depth += -1 if seg == '..' else 1
            if depth < 0:
                ok = False
                break
        target = ref_normalize(loc + p)
        if not ok or not target or target == loc or '..' in target \
                or target[:len(loc) + 1] == loc + ('proc',) \
                or target == ('a',)[:len(target)] and len(target) < 2 \
                and not loc:
            continue
        acc.case(key=('establish', loc, p))
        case = {'law': 'establish', 'loc': loc, 'path': p}
        V = lambda rule, fp, msg: acc.violate(  # noqa
            fw.violation(rule, fp, msg, case))
        mk = lambda pid, var: probes.Probe({  # noqa
            'pid': pid, 'ts': 1, 'log_states': False, 'update': {},
            'schema': {'port': {var: {'_default': 1}}}})
        processes = {'pre': mk('pre', 'z')}
        topology = {'pre': {'port': ('a', 'deep')}}
        node_p, node_t = processes, topology
        for k in loc:
            node_p = node_p.setdefault(k, {})
            node_t = node_t.setdefault(k, {})
        node_p['proc'] = mk('proc', 'v')
        node_t['proc'] = {'port': p}
        try:
            root = generate_state(processes, topology, {})
            tree = probes.pure(root.get_value())
            start = root.get_path(loc)
            reached = start.get_path(p)
            at_normal = root.get_path(target)
        except Exception as e:  # noqa
            V('C17.establish', f'raises-{type(e).__name__}',
              f'port of a process at {loc} wired to {p}: {e!r}')
            continue

        def names(t):
            if isinstance(t, dict):
                for k, v in t.items():
                    yield k
                    yield from names(v)
        if '..' in set(names(tree)):
            V('C17.establish', 'store-named-dotdot',
              f'port of a process at {loc} wired to {p}: the hierarchy '
              f'holds a store NAMED "..": {tree}')
            continue
        got = tree
        for k in target:
            got = got.get(k, {}) if isinstance(got, dict) else {}
        if not isinstance(got, dict) or got.get('v') != 1:
            V('C17.establish', 'variable-not-at-normal-form',
              f'port of a process at {loc} wired to {p}: variable v is '
              f'not at {target + ("v",)}: {tree}')
            continue
        if reached is not at_normal:
            V('C17.establish', 'walk-differs-from-normal-form',
              f'walking {p} from {loc} does not reach the node at {target}')


def run_unordered(job, acc):
    """paths_to_dict is the inverse of ANY enumeration of the leaves, not
    only the depth-first one: every permutation of the (path, value) list
    of trees with at most 4 leaves."""
    _, shape = job
    plain = to_plain(number_leaves(shape))
    pairs = list(dict_to_paths((), plain))
    if len(pairs) > 4:
        return
    for perm in itertools.permutations(pairs):
        acc.case(key=('unordered', fw.jdump(shape),
                      tuple(p for p, _ in perm)))
        got = paths_to_dict(list(perm))
        if got != plain:
            acc.violate(fw.violation(
                'C17.enum', 'paths_to_dict-depends-on-order',
                f'paths_to_dict({list(perm)}) = {got}, expected {plain}',
                {'law': 'unordered', 'tree': shape}))
            return


def _sub(tree, path):
    for k in path:
        tree = tree[k]
    return tree


def run_tree(job, acc):
    if job[0] == 'establish':
        return run_establish(job, acc)
    if job[0] == 'unordered':
        return run_unordered(job, acc)
    if job[0] == 'move':
        run_moves(job, acc)
        return
    if job[0] == 'process-node':
        run_process_node(job, acc)
        return
    if job[0] == 'shared':
        run_shared(job, acc)
        return
    tree_shape, maxlen = job
    tree = number_leaves(tree_shape)
    V = lambda rule, fp, msg, case: acc.violate(  # noqa
        fw.violation(rule, fp, msg, case))
    plain = to_plain(tree)
    paths = list(all_paths(maxlen))
    if isinstance(tree, dict):
        root = Store(to_config(tree))
        node_paths = set(nodes(tree))
        by_path = {}
        for np_ in node_paths:
            by_path[np_] = root.get_path(np_)
        for start in sorted(node_paths):
            s_node = by_path[start]
            # n.path_for() from the root reaches n
            acc.case(key=('path_for', tree_shape, start))
            if s_node.path_for() != start or \
                    root.get_path(s_node.path_for()) is not s_node:
                V('C17.path_for', 'root-get-path-for',
                  f'path_for()={s_node.path_for()} for node at {start}',
                  {'law': 'path_for', 'tree': tree_shape, 'start': start})
            for p in paths:
                target = walk(node_paths, start, p)
                if target is None:
                    continue
                acc.case(key=('walk', tree_shape, start, p),
                         nontrivial=bool(p))
                case = {'law': 'walk', 'tree': tree_shape, 'start': start,
                        'path': p}
                try:
                    got = s_node.get_path(p)
                except Exception as e:  # noqa
                    V('C17.walk', 'get_path-raises',
                      f'get_path({p}) from {start} raised {e!r}', case)
                    continue
                if got is not by_path[target]:
                    V('C17.walk', 'relative-walk-wrong-node',
                      f'get_path({p}) from {start} reached '
                      f'{got.path_for() if got is not None else None}, '
                      f'expected {target}', case)
                    continue
                # the store API resolves the same path to the same node
                try:
                    via_api = s_node[p] if p else s_node
                    via_list = s_node[list(p)] if p else s_node
                except Exception as e:  # noqa
                    V('C17.walk', 'store-api-raises',
                      f'store[{p}] from {start} raised {e!r}', case)
                    continue
                if via_api is not got or via_list is not got:
                    V('C17.walk', 'store-api-reaches-other-node',
                      f'store[{p}] from {start} reached '
                      f'{via_api.path_for() if via_api is not None else None}'
                      f', get_path reached {target}', case)
                    continue
                norm = normalize_path(start + p)
                if norm != ref_normalize(start + p):
                    V('C17.normalize', 'normal-form-differs',
                      f'normalize_path({start + p}) = {norm}, expected '
                      f'{ref_normalize(start + p)}', case)
                elif root.get_path(norm) is not got:
                    V('C17.normalize', 'normal-form-reaches-other-node',
                      f'normalize_path({start + p}) = {norm} reaches a '
                      f'different node than the walk', case)
            for other in sorted(node_paths):
                acc.case(key=('path_to', tree_shape, start, other))
                rel = s_node.path_to(by_path[other])
                case = {'law': 'path_to', 'tree': tree_shape,
                        'start': start, 'other': other}
                try:
                    reached = s_node.get_path(rel)
                except Exception as e:  # noqa
                    V('C17.path_to', 'get_path-raises',
                      f'path_to gave {rel}; following it raised {e!r}',
                      case)
                    continue
                if reached is not by_path[other]:
                    V('C17.path_to', 'path-to-misses',
                      f'{start}.path_to({other}) = {rel} reaches '
                      f'{reached.path_for() if reached is not None else None}',
                      case)
    # dictionary helpers on the plain tree, all paths without '..'
    if not isinstance(plain, dict):
        return
    dpaths = [p for p in paths if '..' not in p]
    leaf_paths = dict(dict_to_paths((), plain))
    for p in dpaths:
        case = {'law': 'dict', 'tree': tree_shape, 'path': p}
        acc.case(key=('dict', tree_shape, p), nontrivial=bool(p))
        # reference lookup
        cur, ok = plain, True
        for seg in p:
            if isinstance(cur, dict) and seg in cur:
                cur = cur[seg]
            else:
                ok = False
                break
        sentinel = ('missing',)
        try:
            got = get_in(plain, p, sentinel)
        except Exception as e:  # noqa
            # walking *through* a leaf is outside get_in's domain
            got = None
            through_leaf = True
        else:
            through_leaf = False
        if not through_leaf and (got if ok else sentinel) is not got:
            V('C17.get_in', 'wrong-value',
              f'get_in(d, {p}) = {got!r}, reference '
              f'{cur if ok else "missing"!r}', case)
        # assoc_path then get_in (only where no leaf is in the way)
        blocked = False
        cur2 = plain
        for seg in p[:-1]:
            if isinstance(cur2, dict) and seg in cur2:
                cur2 = cur2[seg]
                if not isinstance(cur2, dict):
                    blocked = True
                    break
            else:
                break
        if p and not blocked:
            d1 = copy.deepcopy(plain)
            before = copy.deepcopy(d1)
            res = assoc_path(d1, p, 'NEW')
            if get_in(res, p) != 'NEW':
                V('C17.assoc_path', 'get_in-does-not-read-assoc_path',
                  f'after assoc_path(d, {p}, NEW) get_in gives '
                  f'{get_in(res, p)!r}', case)
            exp = _ref_assoc(before, p, 'NEW')
            if res != exp:
                V('C17.assoc_path', 'changes-other-entries',
                  f'assoc_path(d, {p}) gave {res}, expected {exp}', case)
            d2 = copy.deepcopy(plain)
            res2 = assoc_in(d2, p, 'NEW')
            if res2 != exp:
                V('C17.assoc_in', 'disagrees-with-assoc_path',
                  f'assoc_in(d, {p}) = {res2}, assoc_path gives {exp}',
                  case)
            if d2 != before:
                V('C17.assoc_in', 'mutates-input',
                  f'assoc_in modified its input: {d2} != {before}', case)
            # get_in reads what assoc_path wrote - also None and the other
            # falsy values, which are not "missing"
            for falsy in (None, 0, False, '', []):
                d7 = assoc_path(copy.deepcopy(plain), p,
                                copy.deepcopy(falsy))
                back = get_in(d7, p, sentinel)
                if back is sentinel or back != falsy or \
                        type(back) is not type(falsy):
                    V('C17.assoc_path', 'get_in-does-not-read-assoc_path',
                      f'after assoc_path(d, {p}, {falsy!r}) get_in(d, p, '
                      f'default) gives {back!r}', case)
                    break
            # writing a DICTIONARY replaces what was there (it is not merged
            # into an existing branch)
            for newval in ({}, {'z': 9}):
                d6 = copy.deepcopy(plain)
                res6 = assoc_path(d6, p, copy.deepcopy(newval))
                if get_in(res6, p) != newval:
                    V('C17.assoc_path', 'get_in-does-not-read-assoc_path',
                      f'after assoc_path(d, {p}, {newval}) get_in gives '
                      f'{get_in(res6, p)!r}', case)
                elif res6 != _ref_assoc(before, p, newval):
                    V('C17.assoc_path', 'changes-other-entries',
                      f'assoc_path(d, {p}, {newval}) gave {res6}', case)
                # ... and so does assoc_in, without touching its input
                d8 = copy.deepcopy(plain)
                res8 = assoc_in(d8, p, copy.deepcopy(newval))
                if res8 != _ref_assoc(before, p, newval):
                    V('C17.assoc_in', 'disagrees-with-assoc_path',
                      f'assoc_in(d, {p}, {newval}) = {res8}, expected '
                      f'{_ref_assoc(before, p, newval)}', case)
                if d8 != before:
                    V('C17.assoc_in', 'mutates-input',
                      f'assoc_in modified its input: {d8} != {before}',
                      case)
            # delete_in removes exactly that entry
            d3 = copy.deepcopy(res)
            delete_in(d3, p)
            exp_del = _ref_delete(exp, p)
            if d3 != exp_del:
                V('C17.delete_in', 'removes-wrong-entry',
                  f'delete_in(d, {p}) gave {d3}, expected {exp_del}', case)
            # update_in: only the addressed subtree differs
            d4 = copy.deepcopy(plain)
            res4 = update_in(d4, p, lambda cur: ('UPD', cur))
            exp4 = _ref_assoc(before, p, ('UPD', cur if ok else {}))
            if res4 != exp4:
                V('C17.update_in', 'differs-outside-addressed-subtree',
                  f'update_in(d, {p}) gave {res4}, expected {exp4}', case)
        if ok and p and not blocked:
            d5 = copy.deepcopy(plain)
            delete_in(d5, p)
            exp5 = _ref_delete(copy.deepcopy(plain), p)
            if d5 != exp5:
                V('C17.delete_in', 'removes-wrong-entry',
                  f'delete_in(d, {p}) on existing entry gave {d5}, '
                  f'expected {exp5}', case)
    # enumerations are mutually inverse
    acc.case(key=('enum', tree_shape))
    case = {'law': 'enum', 'tree': tree_shape}
    if paths_to_dict(dict_to_paths((), plain)) != plain:
        V('C17.enum', 'paths_to_dict-not-inverse',
          f'paths_to_dict(dict_to_paths(d)) != d for {plain}', case)
    if dict(hierarchy_depth(plain)) != leaf_paths:
        V('C17.enum', 'hierarchy_depth-disagrees',
          f'hierarchy_depth {dict(hierarchy_depth(plain))} vs '
          f'dict_to_paths {leaf_paths}', case)
    ref_leaves = _ref_leaves(plain)
    if leaf_paths != ref_leaves:
        V('C17.enum', 'dict_to_paths-wrong-leaves',
          f'dict_to_paths gives {leaf_paths}, expected {ref_leaves}', case)
    if len(acc.samples) < 3 and isinstance(plain, dict) and len(
            leaf_paths) >= 3:
        acc.sample({'tree': plain, 'n_nodes': len(nodes(tree)),
                    'example_law': 'start.get_path(p) is '
                    'root.get_path(normalize_path(start.path_for()+p))'})


def _ref_assoc(d, p, v):
    d = copy.deepcopy(d)
    cur = d
    for seg in p[:-1]:
        if seg not in cur or not isinstance(cur[seg], dict):
            cur[seg] = {}
        cur = cur[seg]
    cur[p[-1]] = v
    return d


def _ref_delete(d, p):
    d = copy.deepcopy(d)
    cur = d
    for seg in p[:-1]:
        if not isinstance(cur, dict) or seg not in cur:
            return d
        cur = cur[seg]
    if isinstance(cur, dict):
        cur.pop(p[-1], None)
    return d


def _ref_leaves(d, path=()):
    out = {}
    for k, v in d.items():
        if isinstance(v, dict):
            out.update(_ref_leaves(v, path + (k,)))
        else:
            out[path + (k,)] = v
    return out


def norm_jobs(acc):
    """normalize_path on all paths of length <= 6 that never climb above
    their starting point, against the lexical reference."""
    for p in all_paths(6):
        depth, inside = 0, True
        for seg in p:
            depth += -1 if seg == '..' else 1
            if depth < 0:
                inside = False    # walks above the root: outside the law
                break
        if not inside:
            continue
        acc.case(key=('norm', p), nontrivial=bool(p))
        if normalize_path(p) != ref_normalize(p):
            acc.violate(fw.violation(
                'C17.normalize', 'normal-form-differs',
                f'normalize_path({p}) = {normalize_path(p)}, expected '
                f'{ref_normalize(p)}', {'law': 'norm', 'path': p}))


def run(ctx):
    maxlen = BOUNDS[ctx.tier]['path_len']
    jobs = [(t, maxlen) for t in trees(3)]
    jobs += [('shared', t) for t in trees(3) if isinstance(t, dict)]
    jobs += [('move', t) for t in (trees(2) if ctx.quick else trees(3))
             if isinstance(t, dict)]
    jobs += [('process-node', t) for t in trees(2) if isinstance(t, dict)]
    jobs += [('establish', loc) for loc in ((), ('c',), ('c', 'd'))]
    jobs += [('unordered', t) for t in trees(3) if isinstance(t, dict)]
    acc = ctx.map(run_tree, jobs)
    norm_jobs(acc)
    return acc


def replay(case):
    acc = fw.Acc()
    if case['law'] == 'norm':
        norm_jobs(acc)
    elif case['law'] == 'establish':
        run_establish(('establish', tuple(case['loc'])), acc)
    elif case['law'] == 'unordered':
        run_unordered(('unordered', case['tree']), acc)
    elif case['law'] == 'process-node':
        run_process_node(('process-node', case['tree']), acc)
    elif case['law'] == 'move':
        run_moves(('move', case['tree']), acc)
    elif case['law'] == 'enum-shared':
        run_shared(('shared', case['tree']), acc)
    else:
        run_tree((case['tree'], max(4, len(case.get('path', ())))), acc)
    return [v for exs in acc.viol_examples.values() for v in exs]


RULE += (
    ' Falsy values and None written by assoc_path are read back by get_in with a default. Move law: every subtree re-attached under every other branch (add_node + delete of the source entry) after all nodes were asked for their path - path_for and path_to stay right.')

RULE += (
    " Deep move: a subtree re-attached below a NEW intermediate branch (('via', 'moved')) - every moved node's path_for()/path_to() names the new place. Process-node law: '..' from a node that holds a Process reaches its parent and the walk continues from there, as for any leaf.")

RULE += (
    " Establish law: a port of a process (at the root, one and two compartments deep) wired to EVERY path of length <= 4 over {a (exists), n, m (new), ..} that stays inside the hierarchy: the variable lives at the normal form of the path, walking the path reaches that node, no store is named '..'. paths_to_dict inverts EVERY permutation of the leaf list of trees with <= 4 leaves.")

RULE += (
    ' assoc_in, like assoc_path, REPLACES what is at the path when the new value is a dictionary ({} included).')
