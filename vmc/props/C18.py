"""C18 - timeseries and query views of emitted data lose nothing."""
import itertools

from vivarium.core.emitter import (
    RAMEmitter, timeseries_from_data, path_timeseries_from_data,
    path_timeseries_from_embedded_timeseries)
from vivarium.library.units import units, Quantity

from vmc import framework as fw

ID = 'C18'
LEVEL = 'exploration'
EXHAUSTIVE = True
RULE = (
    'raw histories with 1-3 times over ALL 24 variable trees of nesting <= 2 '
    'on keys {a, ab} (+ 3 shapes with a nested variable named time); cell values {0, False, "", [], 1.5, "x", [1, 2], a '
    'quantity}: every assignment when there are <= 4 cells, otherwise '
    'every assignment with <= 2 cells deviating from a filler; ordered '
    'query sets over ALL node paths (stores and variables) plus one absent '
    'path (singles, ordered pairs, everything in both orders, all subsets '
    'on small histories); every placement of reads between emits, also '
    'with rows split over two emits at one time. Pushed through '
    'RAMEmitter.emit (serialisation) and the pure conversion functions. '
    'A case is one (history, query set); non-trivial when a falsy value or '
    'a quantity occurs.')
ASSUMPTIONS = [
    'every variable exists at every emitted time (the statement\'s premise)',
    'a quantity column is keyed (name, unit string) and holds magnitudes, '
    'as documented in value_in_embedded_dict',
]
BOUNDS = {'quick': {'times': 2, 'deviating_cells': 2},
          'thorough': {'times': 3, 'deviating_cells': 2}}

VALUES = [0, False, '', [], 1.5, 'x', [1, 2], 'Q', 'Q2', 'LQ', 'Q0']
FILLER = 'x'


def value(v):
    if v == 'Q':
        return 2.5 * units.fg
    if v == 'Q0':
        # a quantity whose magnitude is zero (a falsy quantity)
        return 0.0 * units.fg
    if v == 'Q2':
        # one base unit raised to a power
        return 2.0 * units.um ** 2
    if v == 'LQ':
        # a list that starts with a plain number and holds a quantity
        return [0, 2.5 * units.um]
    return list(v) if isinstance(v, list) else v


def tree_shapes():
    """Keys 'a' and 'ab' (one name is a prefix of the other), plus shapes
    with a nested variable that is itself called 'time'."""
    leaf = None
    d1 = [{'a': leaf}, {'ab': leaf}, {'a': leaf, 'ab': leaf}]
    out = []
    for keys in (('a',), ('ab',), ('a', 'ab')):
        for combo in itertools.product([leaf] + d1, repeat=len(keys)):
            out.append(dict(zip(keys, combo)))
    out.append({'a': {'time': leaf}})
    out.append({'a': {'time': leaf, 'ab': leaf}})
    out.append({'g': {'time': leaf}, 'a': leaf})
    # variables three levels deep that share their first TWO keys
    out.append({'g': {'h': {'a': leaf, 'ab': leaf}}})
    out.append({'g': {'h': {'a': leaf, 'ab': leaf}, 'a': leaf}})
    return out


def leaf_paths(shape, path=()):
    out = []
    for k, v in shape.items():
        if isinstance(v, dict):
            out += leaf_paths(v, path + (k,))
        else:
            out.append(path + (k,))
    return out


def absent_path(shape):
    """A path that names no variable and does not pass through one (a
    path *through* a leaf variable is outside get_in's domain)."""
    for k, v in shape.items():
        if isinstance(v, dict):
            return (k, 'zz')
    return ('zz', 'q')


def node_paths(shape, path=()):
    """All paths naming a store (branch) or a variable (leaf)."""
    out = []
    for k, v in shape.items():
        out.append(path + (k,))
        if isinstance(v, dict):
            out += node_paths(v, path + (k,))
    return out


def query_sets(shape, full):
    """Ordered queries over all node paths plus one absent path: every
    single path, every ordered pair, the full set in both orders (and,
    when ``full``, every subset in listing order)."""
    qp = node_paths(shape) + [absent_path(shape)]
    out = [(p,) for p in qp]
    pairs = [tuple(c) for c in itertools.permutations(qp, 2)]
    if not full:
        # on large histories only ancestor/descendant pairs, both orders
        pairs = [(a, b) for a, b in pairs
                 if a[:len(b)] == b or b[:len(a)] == a]
    out += pairs
    out += [tuple(qp), tuple(reversed(qp))]
    if full:
        out += [tuple(c) for k in range(3, len(qp))
                for c in itertools.combinations(qp, k)]
    return out


def build_row(paths, vals):
    row = {}
    for p, v in zip(paths, vals):
        node = row
        for k in p[:-1]:
            node = node.setdefault(k, {})
        node[p[-1]] = value(v)
    return row


FULL_LIMIT = {'v': 4096}


def assignments(n_cells, max_dev):
    if len(VALUES) ** n_cells <= FULL_LIMIT['v']:
        yield from itertools.product(VALUES, repeat=n_cells)
        return
    base = [FILLER] * n_cells
    yield tuple(base)
    others = [v for v in VALUES if v != FILLER]
    for k in range(1, max_dev + 1):
        for cells in itertools.combinations(range(n_cells), k):
            for vals in itertools.product(others, repeat=k):
                a = list(base)
                for c, v in zip(cells, vals):
                    a[c] = v
                yield tuple(a)


def same(a, b):
    if isinstance(a, Quantity) or isinstance(b, Quantity):
        return (isinstance(a, Quantity) and isinstance(b, Quantity)
                and a.units == b.units and a.magnitude == b.magnitude)
    return type(a) is type(b) and a == b


MISSING = object()


def get(d, path):
    for k in path:
        if not isinstance(d, dict) or k not in d:
            return MISSING
        d = d[k]
    return d


def flatten(d, path=()):
    out = {}
    for k, v in d.items():
        if isinstance(v, dict):
            out.update(flatten(v, path + (k,)))
        else:
            out[path + (k,)] = v
    return out


def check_history(shape_idx, paths, times, cells, acc, queries):
    n = len(paths)
    rows = [build_row(paths, cells[i * n:(i + 1) * n])
            for i in range(len(times))]
    case = {'shape': shape_idx, 'times': list(times), 'cells': list(cells)}
    V = lambda rule, fp, msg: acc.violate(  # noqa
        fw.violation(rule, fp, msg, case))
    em = RAMEmitter({'type': 'timeseries'})
    for t, row in zip(times, rows):
        em.emit({'table': 'history', 'data': dict(row, time=t)})
    raw = em.get_data_deserialized()
    # raw data reproduces the rows
    if list(raw.keys()) != list(times):
        V('C18.raw', 'time-keys', f'raw keys {list(raw)} != {times}')
        return
    for t, row in zip(times, rows):
        for p in paths:
            if not same(get(raw[t], p), get(row, p)):
                V('C18.raw', 'cell-differs',
                  f'raw[{t}]{p} = {get(raw[t], p)!r}, emitted '
                  f'{get(row, p)!r}')
                return
    # embedded and path timeseries
    for name, emb, flat in (
            ('emitter', em.get_timeseries(), em.get_path_timeseries()),
            ('pure', timeseries_from_data(raw),
             path_timeseries_from_data(raw)),
            ('pure2', None, path_timeseries_from_embedded_timeseries(
                timeseries_from_data(raw)))):
        if emb is not None:
            if emb.get('time') != list(times):
                V('C18.timeseries', 'time-vector',
                  f'{name}: time vector {emb.get("time")} != {times}')
                return
            cols = flatten({k: v for k, v in emb.items() if k != 'time'})
            if not check_columns(cols, paths, rows, times, V,
                                 f'{name} embedded'):
                return
        if flat.get('time') != list(times):
            V('C18.timeseries', 'time-vector',
              f'{name}: path-timeseries time {flat.get("time")}')
            return
        cols = {k: v for k, v in flat.items() if k != 'time'}
        if not check_columns(cols, paths, rows, times, V, f'{name} path'):
            return
    # raw data whose time keys were inserted in another order (merged from
    # chunks, a shared emitter): whatever order the time vector comes in,
    # every column is aligned with it cell by cell
    if 1 < len(times) <= 3:
        for perm in itertools.permutations(range(len(times))):
            if list(perm) == sorted(perm):
                continue
            raw_p = {times[i]: raw[times[i]] for i in perm}
            for name, series in (
                    ('embedded', timeseries_from_data(raw_p)),
                    ('path', path_timeseries_from_data(raw_p)),
                    ('path-from-embedded',
                     path_timeseries_from_embedded_timeseries(
                         timeseries_from_data(raw_p)))):
                tv = series.get('time')
                if sorted(tv or []) != sorted(times):
                    V('C18.timeseries', 'time-vector',
                      f'raw keys inserted as {list(raw_p)}: {name} time '
                      f'vector {tv}')
                    return
                rows_tv = [rows[list(times).index(t)] for t in tv]
                cols = {k: v for k, v in series.items() if k != 'time'}
                if name == 'embedded':
                    cols = flatten(cols)
                if not check_columns(
                        cols, paths, rows_tv, tv, V,
                        f'raw keys inserted as {list(raw_p)}, {name}'):
                    return
    # queries
    for q in queries:
        acc.case(key=('query', shape_idx, tuple(times), cells, q),
                 nontrivial=any(c in (0, False, '', [], 'Q') for c in cells))
        got = em.get_data_deserialized([tuple(p) for p in q])
        if list(got.keys()) != list(times):
            V('C18.query', 'time-keys',
              f'query {q}: keys {list(got)} != {times}')
            return
        for t, row in zip(times, rows):
            have = flatten(got[t]) if isinstance(got[t], dict) else {}
            want = {}
            for qpath in q:
                sub = get(row, qpath)
                if sub is MISSING:
                    continue
                if isinstance(sub, dict):
                    for lp, lv in flatten(sub).items():
                        want[tuple(qpath) + lp] = lv
                else:
                    want[tuple(qpath)] = sub
            if set(have) != set(want):
                missing = sorted(set(want) - set(have))
                extra = sorted(set(have) - set(want))
                fp = 'drops-falsy-value' if missing and all(
                    not isinstance(want[m], Quantity) and not want[m]
                    for m in missing) else (
                    'drops-variable' if missing else 'extra-variable')
                V('C18.query', fp,
                  f'query {q} at t={t}: missing {missing} extra {extra}; '
                  f'row {row}')
                return
            for p in want:
                if not same(have[p], want[p]):
                    V('C18.query', 'value-differs',
                      f'query {q} at t={t}: {p} = {have[p]!r}, emitted '
                      f'{want[p]!r}')
                    return
    # the queried PATH timeseries: every variable at or below a queried
    # path has its column(s), nothing else
    for q in queries:
        qpaths = [tuple(x) for x in q]
        under = [lp for lp in paths if any(
            lp[:len(qp)] == qp for qp in qpaths)]
        try:
            flatq = em.get_path_timeseries(qpaths)
        except Exception as e:  # noqa
            V('C18.query', f'path-timeseries-raises-{type(e).__name__}',
              f'get_path_timeseries({qpaths}): {e!r}')
            return
        cols = {k: v for k, v in flatq.items() if k != 'time'}
        if flatq.get('time') != list(times) and under:
            V('C18.query', 'path-timeseries-time-vector',
              f'get_path_timeseries({qpaths}): time {flatq.get("time")}')
            return
        if not check_columns(cols, under, rows, times, V,
                             f'get_path_timeseries({qpaths})'):
            return
    # queries must not have modified the stored history
    raw2 = em.get_data_deserialized()
    for t, row in zip(times, rows):
        for p in paths:
            if not same(get(raw2.get(t, {}), p), get(row, p)):
                V('C18.query', 'query-modified-stored-history',
                  f'after the queries raw[{t}]{p} = '
                  f'{get(raw2.get(t, {}), p)!r}, emitted {get(row, p)!r}')
                return
    # reads interleaved with emits do not change what later reads return
    if len(cells) <= 4:
        interleaved(paths, times, rows, V)


def views(em):
    return (em.get_data_deserialized(), em.get_timeseries(),
            em.get_path_timeseries(), em.get_data_unitless())


def same_view(a, b):
    if isinstance(a, dict) and isinstance(b, dict):
        return list(a) == list(b) and all(same_view(a[k], b[k]) for k in a)
    if isinstance(a, (list, tuple)) and isinstance(b, (list, tuple)):
        return len(a) == len(b) and all(
            same_view(x, y) for x, y in zip(a, b))
    return same(a, b)


def interleaved(paths, times, rows, V):
    """Every placement of reads between emits, also with each row split
    over two emit() calls at the same time key."""
    half = max(1, len(paths) // 2)
    for split in (False, True):
        steps = []
        for t, row in zip(times, rows):
            if split and len(paths) >= 2:
                first = build_partial(row, paths[:half])
                second = build_partial(row, paths[half:])
                steps.append(dict(first, time=t))
                steps.append(dict(second, time=t))
            else:
                steps.append(dict(row, time=t))
        ref_em = RAMEmitter({'type': 'timeseries'})
        for st in steps:
            ref_em.emit({'table': 'history', 'data': dict(st)})
        want = views(ref_em)
        for mask in range(1, 1 << len(steps)):
            em = RAMEmitter({'type': 'timeseries'})
            for i, st in enumerate(steps):
                em.emit({'table': 'history', 'data': dict(st)})
                if mask >> i & 1:
                    views(em)
            got = views(em)
            if not same_view(got, want):
                V('C18.history', 'earlier-read-changes-later-read',
                  f'rows {rows} (split={split}): reading after emits '
                  f'{[i for i in range(len(steps)) if mask >> i & 1]} '
                  f'changes the final views')
                return


def build_partial(row, some_paths):
    out = {}
    for p in some_paths:
        node = out
        for k in p[:-1]:
            node = node.setdefault(k, {})
        node[p[-1]] = get(row, p)
    return out


def check_columns(cols, paths, rows, times, V, where):
    """cols: {path: list}; quantity columns are keyed (name, unit string)."""
    seen = set()
    for p in paths:
        want = [get(r, p) for r in rows]
        col = cols.get(p)
        plain = [w for w in want if not isinstance(w, Quantity)]
        quant = [w for w in want if isinstance(w, Quantity)]
        got_cells = []
        if plain:
            if col is None:
                V('C18.timeseries', 'column-missing',
                  f'{where}: no column for {p}')
                return False
            seen.add(p)
            got_cells += [('plain', x) for x in col]
        # quantity cells are filed under (name, unit string) - one column
        # per unit, exponents included
        ustrs = []
        for w in quant:
            if str(w.units) not in ustrs:
                ustrs.append(str(w.units))
        for ustr in ustrs:
            qkey = p[:-1] + ((p[-1], ustr),)
            qcol = cols.get(qkey)
            if qcol is None:
                V('C18.timeseries', 'column-missing',
                  f'{where}: no column for quantity {qkey}; columns '
                  f'{sorted(map(str, cols))}')
                return False
            seen.add(qkey)
            unit = next(w.units for w in quant if str(w.units) == ustr)
            got_cells += [(unit, x) for x in qcol]
        if len(plain) == len(want) or (
                len(quant) == len(want) and len(ustrs) == 1):
            if len(got_cells) != len(times):
                V('C18.timeseries', 'column-length',
                  f'{where}: column {p} has {len(got_cells)} cells for '
                  f'{len(times)} times: {got_cells}')
                return False
            for (kind, g), w in zip(got_cells, want):
                back = g if kind == 'plain' else g * kind
                if not same(back, w):
                    V('C18.timeseries', 'cell-differs',
                      f'{where}: column {p} reads {back!r}, emitted {w!r}')
                    return False
        else:
            # mixed plain / quantity cells: two columns share the cells
            if len(got_cells) != len(times):
                V('C18.timeseries', 'column-length',
                  f'{where}: columns for {p} hold {len(got_cells)} cells '
                  f'for {len(times)} times')
                return False
    extra = set(cols) - seen
    if extra:
        V('C18.timeseries', 'extra-column', f'{where}: {sorted(map(str, extra))}')
        return False
    return True


def check_alias(nested, acc):
    """Rows made of plain JSON values only, whose list / dictionary
    values are THE SAME objects at every emit, changed in place in between
    (what an in-place updater does to a store's value): every timepoint
    keeps the contents it was emitted with, through every accessor."""
    case = {'family': 'alias', 'nested': nested}
    acc.case(key=('alias', nested), outcome='alias')
    V = lambda rule, fp, msg: acc.violate(  # noqa
        fw.violation(rule, fp, msg, case))
    log, d = [], {'k': 0}
    em = RAMEmitter({'type': 'timeseries'})
    times = [0.0, 1.0, 2.0]
    want = {}
    for i, t in enumerate(times):
        inner = {'log': log, 'd': d}
        row = {'cell': inner, 'n': i} if nested else dict(inner, n=i)
        em.emit({'table': 'history', 'data': dict(row, time=t)})
        want[t] = {'log': list(range(i)), 'k': i, 'n': i}
        log.append(i)
        d['k'] = i + 1
    pre = ('cell',) if nested else ()
    for name, raw in (('get_data', em.get_data()),
                      ('get_data_deserialized', em.get_data_deserialized()),
                      ('query', em.get_data([pre + ('log',),
                                             pre + ('d',), ('n',)]))):
        for t in times:
            got = {'log': get(raw.get(t, {}), pre + ('log',)),
                   'k': get(raw.get(t, {}), pre + ('d', 'k')),
                   'n': get(raw.get(t, {}), ('n',))}
            if got != want[t]:
                V('C18.raw', 'earlier-timepoint-changed',
                  f'{name}: at t={t} the history reads {got}, it was '
                  f'emitted as {want[t]} (the emitted list / dictionary '
                  f'was changed in place afterwards)')
                return
    for name, flat in (('get_path_timeseries', em.get_path_timeseries()),
                       ('path_timeseries_from_data',
                        path_timeseries_from_data(em.get_data()))):
        got = (flat.get(pre + ('log',)), flat.get(pre + ('d', 'k')),
               flat.get(('n',)))
        exp = ([want[t]['log'] for t in times],
               [want[t]['k'] for t in times], [want[t]['n'] for t in times])
        if got != exp:
            V('C18.timeseries', 'earlier-timepoint-changed',
              f'{name}: columns (log, d.k, n) = {got}, expected {exp}')
            return


def check_empty_branch(order, depth, acc):
    """A dictionary-valued entry that is {} at every time, before /
    between / after the other variables of its store: the path timeseries
    files every variable under its own path."""
    case = {'family': 'empty-branch', 'order': order, 'depth': depth}
    acc.case(key=('empty-branch', order, depth), outcome='empty-branch')
    times = [0.0, 1.0]
    rows = {}
    for i, t in enumerate(times):
        items = {'registry': {}, 'mass': 10 + i, 'size': 20 + i}
        cell = {k: items[k] for k in order}
        for _ in range(depth):
            cell = {'in': cell}
        rows[t] = {'cell': cell, 'z': i}
    pre = ('cell',) + ('in',) * depth
    want = {pre + ('mass',): [10, 11], pre + ('size',): [20, 21],
            ('z',): [0, 1]}
    em = RAMEmitter({'type': 'timeseries'})
    for t in times:
        em.emit({'table': 'history', 'data': dict(rows[t], time=t)})
    for name, flat in (
            ('get_path_timeseries', em.get_path_timeseries()),
            ('path_timeseries_from_data', path_timeseries_from_data(rows)),
            ('path_timeseries_from_embedded_timeseries',
             path_timeseries_from_embedded_timeseries(
                 timeseries_from_data(rows)))):
        cols = {k: v for k, v in flat.items() if k != 'time'
                and k != pre + ('registry',)}
        if cols != want:
            acc.violate(fw.violation(
                'C18.timeseries', 'empty-branch-misfiles-variables',
                f'{name}: rows {rows} give the columns {cols}, expected '
                f'{want}', case))
            return


def run_job(job, acc):
    if job[0] == 'special':
        for nested in (False, True):
            check_alias(nested, acc)
        for order in itertools.permutations(('registry', 'mass', 'size')):
            for depth in (0, 1):
                check_empty_branch(order, depth, acc)
        return
    shape_idx, n_times, max_dev, limit = job
    FULL_LIMIT['v'] = limit
    shape = tree_shapes()[shape_idx]
    paths = leaf_paths(shape)
    times = [float(i) for i in range(n_times)]
    first = True
    for cells in assignments(len(paths) * n_times, max_dev):
        acc.case(key=('history', shape_idx, n_times, cells),
                 nontrivial=any(c in (0, False, '', [], 'Q')
                                for c in cells))
        # all query sets on histories with <= 2 cells; a covering subset
        # (singletons, pairs, everything) on larger ones
        qs = query_sets(shape, full=len(cells) <= (3 if limit < 4096
                                                   else 4))
        check_history(shape_idx, paths, times, cells, acc, qs)
        if first and len(acc.samples) < 3 and len(paths) >= 2:
            acc.sample({'shape': shape, 'times': times,
                        'cells': list(cells), 'n_queries': len(qs)})
            first = False


def run(ctx):
    b = BOUNDS[ctx.tier]
    jobs = [(i, t, b['deviating_cells'], 512 if ctx.quick else 4096)
            for i in range(len(tree_shapes()))
            for t in range(1, b['times'] + 1)]
    jobs.append(('special',))
    return ctx.map(run_job, jobs, chunk=1)


def replay(case):
    acc = fw.Acc()
    if case.get('family') in ('alias', 'empty-branch'):
        run_job(('special',), acc)
        return [v for exs in acc.viol_examples.values() for v in exs
                if v['case'] == case]
    shape = tree_shapes()[case['shape']]
    paths = leaf_paths(shape)
    check_history(case['shape'], paths, case['times'],
                  tuple(case['cells']), acc, query_sets(shape, True))
    return [v for exs in acc.viol_examples.values() for v in exs]


RULE += (
    ' Cell values also include a quantity in a squared unit and a list that starts with a number and holds a quantity (one column per unit string, exponents included).')

RULE += (
    ' Shapes of depth 3 (g.h.{a, ab}) and the zero quantity 0.0 fg as a cell value: a query for a store plus one of its variables returns every variable once, falsy ones included.')

RULE += (
    ' Alias family: rows of plain JSON values whose list / dictionary values are the same objects at every emit and are changed in place in between - every timepoint keeps what it was emitted with (raw data, queries, path timeseries). Empty-branch family: a {} entry before / between / after the variables of its store (also one level deeper) does not misfile the other columns.')

RULE += (
    ' Every query set is also put to get_path_timeseries(query): the columns are exactly those of the variables at or below the queried paths (quantity columns keyed by unit string).')
