"""C09 - structural updates change the hierarchy exactly as specified and
nothing else.  Explorer B: BFS over operation histories."""
import copy
import itertools

from vivarium.core.process import Process

from vmc import framework as fw
from vmc import probes, worlds
from vmc import structural as st
from vmc import agents

ID = 'C09'
LEVEL = 'model_checking'
RULE = (
    'explorer B: breadth-first search over histories of _add, _delete, '
    '_generate (a compartment with an inner process), _divide, _move '
    '(with and without an update), clearing a variable to None, adding '
    'leaf children with falsy states, and every enabled pair combined in one '
    'update, over containers X, Y and keys {a, b} (+ daughters), issued by '
    'a step or by a process, one operation per tick, from three initial '
    'hierarchies; states with equal canonical form (container -> sorted '
    '(key, kind)) are merged; every history is replayed on a fresh real '
    'Engine. Plus: adding an existing key must raise; tuple-path _delete. '
    'Oracle after every tick: value tree == reference hierarchy, node '
    'identities and values outside the operation\'s footprint unchanged, '
    'a moved subtree keeps node identities / process objects / relative '
    'wiring. A case is one history. Agents family (vmc.agents): the same '
    'operations issued from inside the compartments (self-division with '
    'copied or fresh processes, self-deletion, self-move, operations on '
    'siblings); every emitted row is compared with the reference '
    'hierarchy and process objects must stay where they are (or move '
    'with their compartment).')
ASSUMPTIONS = [
    'canonical-state merging keeps tree shape, keys and compartment kind; '
    'it drops values, which no operation precondition reads',
    'containers are declared with a non-empty glob sub-schema (K3 lives in '
    'dedicated worlds of C10)',
    'compartment processes are inert or idle when the operation is applied '
    '(operations against in-flight updates are C10\'s subject)',
]
BOUNDS = {'quick': {'depth': 3, 'pairs': 'at the first two operations'},
          'thorough': {'depth': 4, 'pairs': 'at every operation'}}

INITS = [{'X': ['a', 'b'], 'Y': []}, {'X': ['a'], 'Y': ['b']},
         {'X': [], 'Y': []}]


def expected_tree(model):
    out = {}
    for c in st.CONTAINERS:
        out[c] = {}
        for k, comp in model.t[c].items():
            node = {'v': comp['v'], 'w': comp['w'], 'n': comp['n'],
                    'g': comp['g']}
            if comp['inner'] != 'vars':
                node['proc'] = '<process>'
                node['tok'] = ()
            out[c][k] = node
    return out


def world(init, history, issuer, kind):
    script = {}
    for i, op in enumerate(history):
        n = i if issuer == 'process' else i + 1
        script[n] = st.op_update(op, 'inert')
    spec = st.initial_world(kind, {}, issuer, script, init=init)
    # a ticker makes one batch per tick
    spec['processes']['ticker'] = {
        'cls': 'P', 'pid': 'ticker', 'ts': 1, 'log_states': False,
        'schema': {'tk': {'n': dict(st.VAR)}}, 'update': {'tk': {'n': 1}}}
    spec['topology']['ticker'] = {'tk': ('ticker_store',)}
    spec['script'] = [('update', 1)] * (len(history) + 1)
    if issuer == 'step':
        # a census step that DEPENDS on the operator step records which
        # children it is shown in the very phase of the operation
        spec['steps']['census'] = {
            'cls': 'S', 'pid': 'census', 'log_states': False,
            'schema': {'X': {'*': {'v': dict(st.VAR)}},
                       'Y': {'*': {'v': dict(st.VAR)}},
                       'out': {'xk': {'_default': [], '_updater': 'set',
                                      '_emit': True},
                               'yk': {'_default': [], '_updater': 'set',
                                      '_emit': True}}},
            'update': {'$call': 'c09census'}}
        spec['flow']['census'] = [('op',)]
        spec['topology']['census'] = {'X': ('X',), 'Y': ('Y',),
                                      'out': ('census_out',)}
    return spec


def _census(tpl, env):
    return {'out': {'xk': sorted(env.states['X']),
                    'yk': sorted(env.states['Y'])}}


probes.TEMPLATE_HOOKS['c09census'] = _census


def snapshot(engine):
    values = probes.pure(engine.state.get_value())
    ids, procs, topo = {}, {}, {}
    for path, node in engine.state.depth():
        ids[path] = id(node)
        if isinstance(node.value, Process):
            procs[path] = id(node.value)
            topo[path] = fw.jdump(node.topology)
    return values, ids, procs, topo


# ----------------------------------------------------------------------
# ONE process whose two ports are wired to the same store returns a
# structural (or ordinary) update through each port: the engine merges the
# two into one update for that store, and all of it is carried out

TWO_PORT_MENU = {
    'del-a': {'_delete': ['a']},
    'del-b': {'_delete': ['b']},
    'add-x': {'_add': [{'key': 'x', 'state': {'v': 7}}]},
    'add-y': {'_add': [{'key': 'y', 'state': {'v': 8}}]},
    'set-b': {'b': {'v': 50}},
    'move-c': {'_move': [{'source': ('c',), 'target': 'away'}]},
    'move-a': {'_move': [{'source': ('a',), 'target': 'away'}]},
}


def _two_port_ref(names):
    kids = {'a': {'v': 1}, 'b': {'v': 2}, 'c': {'v': 3}}
    away = {}
    for n in names:
        u = TWO_PORT_MENU[n]
        for spec in u.get('_add', []):
            kids[spec['key']] = dict(spec['state'])
    for n in names:
        for mv in TWO_PORT_MENU[n].get('_move', []):
            away[mv['source'][0]] = kids.pop(mv['source'][0])
    for n in names:
        u = TWO_PORT_MENU[n]
        for k, v in u.items():
            if not k.startswith('_') and k in kids:
                kids[k]['v'] += v['v']       # (accumulate is the default)
    for n in names:
        for k in TWO_PORT_MENU[n].get('_delete', []):
            kids.pop(k, None)
    return {'kids': kids, 'away': away}


def run_two_ports(job, acc):
    from vivarium.core.engine import Engine
    _, n1, n2, issuer = job
    case = {'family': 'two-ports', 'job': job}
    acc.case(key=job, outcome='two-ports')
    glob = {'*': {'v': {'_default': 0, '_emit': True}}}
    spec = {'pid': 'op', 'log_states': False,
            'schema': {'k1': copy.deepcopy(glob), 'k2': copy.deepcopy(glob),
                       'away': copy.deepcopy(glob)},
            'update': {'$n': {0: {'k1': copy.deepcopy(TWO_PORT_MENU[n1]),
                                  'k2': copy.deepcopy(TWO_PORT_MENU[n2])}},
                       '$else': {}}}
    topo = {'op': {'k1': ('kids',), 'k2': ('kids',), 'away': ('away',)},
            'tick': {'t': ('clock',)}}
    tick = probes.Probe({'pid': 'tick', 'ts': 1, 'log_states': False,
                         'schema': {'t': {'n': {'_default': 0}}},
                         'update': {'t': {'n': 1}}})
    kw = {'processes': {'tick': tick}}
    if issuer == 'step':
        kw['steps'] = {'op': probes.ProbeStep(spec)}
        kw['flow'] = {'op': []}
    else:
        kw['processes']['op'] = probes.Probe(dict(spec, ts=1))
    try:
        eng = Engine(topology=topo, emitter={'type': 'null'},
                     display_info=False, initial_state={
                         'kids': {'a': {'v': 1}, 'b': {'v': 2},
                                  'c': {'v': 3}}}, **kw)
        eng.update(2)
        tree = probes.pure(eng.state.get_value())
        got = {'kids': tree.get('kids', {}), 'away': tree.get('away', {})}
    except Exception as e:  # noqa
        acc.violate(fw.violation(
            'C09.crash', f'two-ports:{type(e).__name__}',
            f'one process returns {TWO_PORT_MENU[n1]} and '
            f'{TWO_PORT_MENU[n2]} through two ports wired to one store '
            f'(issued by a {issuer}): {e!r}', case))
        return
    want = _two_port_ref((n1, n2))
    if got == want:
        # the lists the process returned are its own (it may return the
        # very same objects again): carrying them out must not change
        # them
        try:
            kw2 = {'processes': {}}
            spec2 = dict(spec, reuse_update=True)
            if issuer == 'step':
                op = probes.ProbeStep(spec2)
                kw2['steps'], kw2['flow'] = {'op': op}, {'op': []}
            else:
                op = probes.Probe(dict(spec2, ts=1))
                kw2['processes']['op'] = op
            eng = Engine(topology={'op': topo['op']},
                         emitter={'type': 'null'}, display_info=False,
                         initial_state={'kids': {
                             'a': {'v': 1}, 'b': {'v': 2}, 'c': {'v': 3}}},
                         **kw2)
            if issuer == 'process':
                eng.update(1)
            kept = getattr(op, '_reused', None)
        except Exception as e:  # noqa
            acc.violate(fw.violation(
                'C09.crash', f'two-ports-reuse:{type(e).__name__}',
                f'{case}: {e!r}', case))
            return
        fresh = {'k1': TWO_PORT_MENU[n1], 'k2': TWO_PORT_MENU[n2]}
        if kept != fresh:
            acc.violate(fw.violation(
                'C09.input', 'returned-update-modified',
                f'one process returns {fresh} through two ports wired to '
                f'one store (issued by a {issuer}); after the update was '
                f'carried out the object it returned reads {kept}', case))
        return
    if got != want:
        acc.violate(fw.violation(
            'C09.tree', 'two-ports-one-store',
            f'one process returns {TWO_PORT_MENU[n1]} and '
            f'{TWO_PORT_MENU[n2]} through two ports wired to one store '
            f'(issued by a {issuer}): hierarchy {got}, expected {want}',
            case))


def run_nested_add(job, acc):
    """_add of a child whose state names children of a glob store NESTED
    in the declared sub-schema: every variable the state does not give
    holds its declared default, at every level."""
    from vivarium.core.engine import Engine
    _, cells, issuer = job
    case = {'family': 'nested-add', 'job': job}
    acc.case(key=job, outcome='nested-add')
    schema = {'k': {'*': {'top': {'_default': 1, '_emit': True},
                          'cells': {'*': {'m': {'_default': 4},
                                          'n': {'_default': 9}}}}}}
    given = {c: {'m': 5 + i} for i, c in enumerate(cells)}
    spec = {'pid': 'op', 'log_states': False, 'schema': schema,
            'update': {'$n': {0: {'k': {'_add': [{
                'key': 'col2', 'state': {'cells': copy.deepcopy(given)}}]}}},
                '$else': {}}}
    tick = probes.Probe({'pid': 'tick', 'ts': 1, 'log_states': False,
                         'schema': {'t': {'n': {'_default': 0}}},
                         'update': {'t': {'n': 1}}})
    kw = {'processes': {'tick': tick}}
    if issuer == 'step':
        kw['steps'] = {'op': probes.ProbeStep(spec)}
        kw['flow'] = {'op': []}
    else:
        kw['processes']['op'] = probes.Probe(dict(spec, ts=1))
    try:
        eng = Engine(topology={'op': {'k': ('kids',)},
                               'tick': {'t': ('clock',)}},
                     emitter={'type': 'null'}, display_info=False,
                     initial_state={'kids': {'col1': {'cells': {
                         'c0': {'m': 1}}}}}, **kw)
        eng.update(2)
        got = probes.pure(eng.state.get_value()).get('kids')
    except Exception as e:  # noqa
        acc.violate(fw.violation(
            'C09.crash', f'nested-add:{type(e).__name__}',
            f'{case}: {e!r}', case))
        return
    want = {'col1': {'top': 1, 'cells': {'c0': {'m': 1, 'n': 9}}},
            'col2': {'top': 1, 'cells': {c: {'m': v['m'], 'n': 9}
                                         for c, v in given.items()}}}
    if got != want:
        acc.violate(fw.violation(
            'C09.tree', 'added-child-misses-nested-defaults',
            f'_add of col2 with the state {{cells: {given}}} (issued by a '
            f'{issuer}): hierarchy {got}, expected {want}', case))


def two_port_jobs():
    out = []
    for n1, n2 in itertools.permutations(TWO_PORT_MENU, 2):
        if {n1, n2} in ({'del-b', 'set-b'}, {'move-a', 'del-a'}):
            continue       # an update for a child the other port removes
        for issuer in ('process', 'step'):
            out.append(('two-ports', n1, n2, issuer))
    return out


def run_history(job, acc):
    if job[0] == 'agents':
        agents.judge(job[1:], acc, 'C09')
        return
    if job[0] == 'two-ports':
        run_two_ports(job, acc)
        return
    if job[0] == 'nested-add':
        run_nested_add(job, acc)
        return
    init_i, history, issuer, kind, expect_reject = job
    init = INITS[init_i]
    case = {'init': init_i, 'history': history, 'issuer': issuer,
            'kind': kind, 'reject': expect_reject}
    V = lambda rule, fp, msg: acc.violate(  # noqa
        fw.violation(rule, fp, msg, case))
    spec = world(init, history, issuer, kind)
    snaps = []

    def after_call(ex, i):
        snaps.append(snapshot(ex.engine))
    ex = worlds.execute(spec, after_call=after_call)
    models = st.replay_model(init, kind, [
        o for o in history if o[0] not in ('addx', 'adddup')])
    acc.case(key=(init_i, history, issuer, kind),
             outcome=f'{issuer}:{history[-1][0] if history else "-"}')
    acc.state(models[-1].canon())
    for a, b, op in zip(models, models[1:], history):
        acc.transition(a.canon(), b.canon(), op[0])
    acc.validated += 1
    last = history[-1] if history else None
    if expect_reject:
        # the last operation adds an existing key: must raise, and the
        # hierarchy must be as before
        if not ex.error:
            V('C09.reject', 'existing-key-accepted',
              f'_add of existing key {last} did not raise')
        return
    if ex.error:
        V('C09.crash', f'{last[0] if last else "-"}:{issuer}:'
          f'{type(ex.error[2]).__name__}',
          f'history {history} ({issuer}): unexpected {ex.error[2]!r}')
        return
    if len(snaps) != len(history) + 1:
        return
    prev = None
    for i, (values, ids, procs, topo) in enumerate(snaps):
        model = models[min(i + 1, len(history))] if i < len(history) \
            else models[-1]
        model = models[min(i + 1, len(models) - 1)]
        got = {c: values.get(c, {}) for c in st.CONTAINERS}
        want = expected_tree(model)
        got[st.LEAF_CONTAINER] = values.get(st.LEAF_CONTAINER, {})
        want[st.LEAF_CONTAINER] = dict(model.leaves)
        census = values.get('census_out')
        if i < len(history) and history[i][0] == 'delpath':
            census = None     # K6: judged by the tree comparison below
        if census is not None and (
                list(census.get('xk', [])) != sorted(model.t['X'])
                or list(census.get('yk', [])) != sorted(model.t['Y'])):
            op = history[i] if i < len(history) else None
            V('C09.tree', 'dependent-step-shown-stale-children',
              f'after tick {i + 1} (operation {op}): the census step that '
              f'depends on the operator step was shown X={census.get("xk")}'
              f' Y={census.get("yk")}, the hierarchy holds '
              f'X={sorted(model.t["X"])} Y={sorted(model.t["Y"])}')
            return
        if fw.jdump(got) != fw.jdump(want):
            got['_typed'] = want['_typed'] = None
        if fw.jdump(got) != fw.jdump(want):
            op = history[i] if i < len(history) else None
            name = op[0] if op else '-'
            if op and op[0] == 'pair':
                name = 'pair:' + '+'.join(sorted(o[0] for o in op[1:]))
            fp = f'{name}:{issuer}'
            if op and op[0] == 'delpath':
                fp = 'tuple-path-delete-ignored'
            V('C09.tree', fp,
              f'after tick {i + 1} (operation {op}, issued by {issuer}): '
              f'hierarchy {got}, reference {want}')
            return
        if prev is not None and i < len(history) + 1 and i >= 1:
            op = history[i] if i < len(history) else None
            fpnt = models[i].footprint(op) if op else set()
            pvalues, pids, pprocs, ptopo = prev
            for path, nid in pids.items():
                if len(path) >= 2 and (path[0], path[1]) in fpnt:
                    continue
                if path and path[0] not in st.CONTAINERS:
                    continue
                if ids.get(path) != nid:
                    V('C09.frame', f'node-identity-changed:'
                      f'{op[0] if op else "-"}',
                      f'operation {op}: node {path} outside its footprint '
                      f'was replaced')
                    return
            # a moved subtree keeps identities, processes and wiring
            ops = [op] if op and op[0] != 'pair' else list(op[1:]) \
                if op else []
            for o in ops:
                if o[0] in ('mov', 'movupd'):
                    _, c, k, d = o
                    for path, nid in pids.items():
                        if path[:2] == (c, k):
                            npath = (d, k) + path[2:]
                            if ids.get(npath) != nid:
                                V('C09.move', 'moved-node-replaced',
                                  f'{o}: node {path} is not the node at '
                                  f'{npath} afterwards')
                                return
                            if path in pprocs and (
                                    procs.get(npath) != pprocs[path] or
                                    topo.get(npath) != ptopo[path]):
                                V('C09.move', 'moved-process-or-wiring-'
                                  'changed',
                                  f'{o}: process at {path} / its topology '
                                  f'changed by the move')
                                return
        prev = (values, ids, procs, topo)
    if len(acc.samples) < 3 and len(history) == 3 and any(
            o[0] == 'pair' for o in history):
        acc.sample({'init': init, 'history': history, 'issuer': issuer,
                    'final': expected_tree(models[-1])})


def jobs(ctx):
    depth = BOUNDS[ctx.tier]['depth']
    out = []
    n_states = 0
    for init_i, init in enumerate(INITS):
        for issuer, kind in (('step', 'inert'), ('step', 'vars'),
                             ('process', 'vars')):
            d = depth if (issuer == 'step' and kind == 'inert') or \
                not ctx.quick else depth - 1
            hists, seen, trans = st.enumerate_histories(
                init, kind, d, with_pairs=True,
                # quick tier: the third operation of a history is a
                # single operation (pairs at the first two)
                pair_levels=2 if ctx.quick else None,
                proc_issuer=(issuer == 'process'))
            if issuer == 'step' and kind == 'inert':
                # cleared (None) variables and falsy leaf children, without
                # pairs, one level deeper
                h3, seen3, _ = st.enumerate_histories(
                    init, kind, min(d, 3), with_pairs=False,
                    with_extras=True)
                hists = hists + [h for h in h3 if any(
                    o[0] in ('clr', 'addleaf') for o in h)]
                n_states += len(seen3)
            n_states += len(seen)
            for h in hists:
                out.append((init_i, h, issuer, kind, False))
            # rejection: add an existing key after every history of
            # length < d
            hs2, _, _ = st.enumerate_histories(init, kind, max(1, d - 2),
                                               with_pairs=False)
            for h in [()] + hs2:
                m = st.replay_model(init, kind, h)[-1]
                for c in st.CONTAINERS:
                    for k in m.t[c]:
                        out.append((init_i, h + (('addx', c, k),), issuer,
                                    kind, True))
                    for k in st.KEYS:
                        if k not in m.t[c]:
                            out.append((init_i, h + (('adddup', c, k),),
                                        issuer, kind, True))
            # tuple-path form of _delete (documented form) as last operation
            for h in [()] + hs2[:40]:
                m = st.replay_model(init, kind, h)[-1]
                for c in st.CONTAINERS:
                    for k in m.t[c]:
                        out.append((init_i, h + (('delpath', c, k),),
                                    issuer, kind, False))
    # operations issued from inside the compartments (vmc.agents)
    out += [('agents',) + j for j in agents.jobs(
        2 if ctx.quick else 3, lite=True)]
    out += two_port_jobs()
    out += [('nested-add', cells, issuer)
            for cells in ((), ('c1',), ('c1', 'c2'))
            for issuer in ('process', 'step')]
    return out


# 'addx' = _add of a key that exists; handled by op_update through 'add'
_orig_op_update = st.op_update


def _op_update(op, kind='vars', ts=1):
    if op[0] == 'addx':
        return _orig_op_update(('add',) + tuple(op[1:]), kind, ts)
    if op[0] == 'adddup':
        # ONE _add list that names the same new key twice
        _, c, k = op
        return {c: {'_add': [{'key': k, 'state': {'v': 5}},
                             {'key': k, 'state': {'v': 6}}]}}
    return _orig_op_update(op, kind, ts)


st.op_update = _op_update


def run(ctx):
    return ctx.map(run_history, jobs(ctx))


def replay(case):
    acc = fw.Acc()

    def tup(x):
        return tuple(tup(y) for y in x) if isinstance(x, (list, tuple)) \
            else x
    if case.get('family') == 'two-ports':
        run_two_ports(tup(case['job']), acc)
    elif case.get('family') == 'nested-add':
        run_nested_add(tup(case['job']), acc)
    elif case.get('family') == 'agents':
        agents.judge(tup(case['job']), acc, 'C09')
    else:
        run_history((case['init'], tup(case['history']), case['issuer'],
                     case['kind'], case['reject']), acc)
    return [v for exs in acc.viol_examples.values() for v in exs]


RULE += (
    ' Rejection also for ONE _add list that names the same new key twice. Step-issued worlds hold a census step that depends on the operator step: it must be shown the children as they are after the operation, in the same phase.')

RULE += (
    ' Two-ports family: ONE process (or step) whose two ports are wired to the same store returns through each port one of {_delete a, _delete b, _add x, _add y, _move c, _move a, a value update} - every ordered pair: both are carried out, and the update object the process returned is left as it was.')

RULE += (
    ' Nested-add family: _add of a child whose state names 0-2 children of a glob store nested in the sub-schema, giving one of their two variables: the other holds its declared default.')
