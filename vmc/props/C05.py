"""C05 - steps run once per phase, after process updates, in dependency
order.  Exhaustive over all labelled DAGs on n <= 4 (5) flow steps."""
import itertools

from vmc import framework as fw
from vmc import sched, worlds

ID = 'C05'
LEVEL = 'model_checking'
RULE = (
    'every labelled DAG on n <= 4 (thorough: 5) flow steps x {0,1,2} legacy '
    'derivers (as steps without flow entry, or as is_step() processes) x '
    'placement {flat, one compartment, split over two compartments with '
    '".." dependencies, depth 2} x process sets {ts 1; ts 1 and 2} x '
    'update(3); plus dynamic worlds where a step deletes a leaf step of a '
    'later layer, generates a compartment holding a step mid-phase, or '
    'adds/deletes a child under a glob port that every step observes. '
    'Oracle on the trace: phase placement, once-per-phase with timestep 0, '
    'dependency order with data-flow evidence (tokens), derivers first in '
    'declaration order, equal snapshots per generation, steps observe this '
    'batch\'s process updates. Distinct by (DAG, derivers, placement, '
    'process set); non-trivial when the DAG has at least one edge or a '
    'deriver. Dynamic worlds: a step deletes a later step, generates a '
    'flow step, generates two legacy derivers, generates two Step objects '
    'without flow (they run first, one at a time, in declaration order), '
    'adds / deletes glob children mid-phase; a step whose update '
    'condition is false in one phase is not invoked then.')
ASSUMPTIONS = [
    'flows are well-formed DAGs whose dependencies exist (the constructor '
    'rejects others)',
    'derivers are declared either all as steps without flow entries or all '
    'as is_step() processes, so "declaration order" is unambiguous',
]
BOUNDS = {'quick': {'steps': 4}, 'thorough': {'steps': 5}}
NAMES = 'abcde'


def all_dags(n):
    """All labelled DAGs on n nodes as sorted edge tuples (i -> j means j
    depends on i)."""
    pairs = [(i, j) for i in range(n) for j in range(n) if i != j]
    out = []
    for mask in range(1 << len(pairs)):
        edges = [pairs[k] for k in range(len(pairs)) if mask >> k & 1]
        # reject 2-cycles quickly
        es = set(edges)
        if any((j, i) in es for (i, j) in edges):
            continue
        # Kahn
        indeg = [0] * n
        for (i, j) in edges:
            indeg[j] += 1
        todo = [i for i in range(n) if indeg[i] == 0]
        seen = 0
        succ = {i: [j for (a, j) in edges if a == i] for i in range(n)}
        while todo:
            x = todo.pop()
            seen += 1
            for y in succ[x]:
                indeg[y] -= 1
                if indeg[y] == 0:
                    todo.append(y)
        if seen == n:
            out.append(tuple(edges))
    return out


def generations(n, edges):
    depth = {}

    def d(j):
        if j not in depth:
            preds = [i for (i, x) in edges if x == j]
            depth[j] = 1 + max([d(i) for i in preds], default=-1)
        return depth[j]
    return {j: d(j) for j in range(n)}


def ancestors(n, edges):
    anc = {j: set() for j in range(n)}
    changed = True
    while changed:
        changed = False
        for (i, j) in edges:
            new = {i} | anc[i]
            if not new <= anc[j]:
                anc[j] |= new
                changed = True
    return anc


PLACEMENTS = ('flat', 'comp', 'split', 'deep')
DERIVER_PLACEMENTS = PLACEMENTS + ('mixed',)


def location(placement, idx):
    """Path of the compartment that holds step idx."""
    if placement == 'flat':
        return ()
    if placement == 'mixed':
        # derivers at different depths, the deeper one declared first;
        # flow steps stay flat
        return ('cm',) if idx % 2 == 0 else ()
    if placement == 'comp':
        return ('c',)
    if placement == 'split':
        return ('c1',) if idx % 2 == 0 else ('c2',)
    return ('c', 'd')


def rel(frm, to):
    """Relative path from compartment frm to path to."""
    k = 0
    while k < len(frm) and k < len(to) and frm[k] == to[k]:
        k += 1
    return ('..',) * (len(frm) - k) + tuple(to[k:])


def put(tree, path, value):
    for key in path[:-1]:
        tree = tree.setdefault(key, {})
    tree[path[-1]] = value


def world(n, edges, n_derivers, deriver_kind, placement, tss, dynamic=None):
    names = [NAMES[i] for i in range(n)]
    dnames = [f'z{i}' for i in range(n_derivers)]   # sort after flow steps
    all_out = [f'v_{x}' for x in names + dnames]
    if dynamic in ('generate', 'gen-deriver', 'gen-steps'):
        all_out.append('v_new')
    if dynamic in ('gen-deriver', 'gen-steps'):
        all_out.append('v_new2')
    outs_schema = {v: {'_default': None, '_updater': 'set', '_emit': True}
                   for v in all_out}
    shared_schema = {'tok': dict(sched.TOK), 'num': dict(sched.NUM)}
    processes, steps, flow, topology = {}, {}, {}, {}
    for i, ts in enumerate(tss):
        pid = f'p{i}'
        spec = sched.probe_spec(
            pid, ts, {'$n': {1: False}, '$else': True}
            if dynamic == 'all-quiet' else 'always')
        processes[pid] = spec
        topology[pid] = {'priv': (f's{i}',), 'shared': ('shared',)}

    def step_spec(name, cls='S'):
        spec = {'cls': cls, 'pid': name,
                'schema': {'outs': {k: dict(v) for k, v in
                                    outs_schema.items()},
                           'shared': {k: dict(v) for k, v in
                                      shared_schema.items()}},
                'update': {'outs': {f'v_{name}': '$tokval'}}}
        if dynamic == 'kids':
            spec['schema']['kids'] = {'*': {'v': {'_default': 0}}}
            spec['log_snapshot'] = True
        return spec

    # derivers first in declaration order
    for k, dn in enumerate(dnames):
        loc = location(placement, k)
        spec = step_spec(dn, 'D' if deriver_kind == 'process' else 'S')
        target = processes if deriver_kind == 'process' else steps
        put(target, loc + (dn,), spec)
        put(topology, loc + (dn,), {'outs': rel(loc, ('outs',)),
                                    'shared': rel(loc, ('shared',))})
        if dynamic == 'deriver-suicide' and k == 0:
            # the first deriver deletes ITSELF in its 2nd phase: the later
            # derivers, which existed when the phase began, still run
            spec['schema']['home'] = {}
            spec['update'] = {
                '$n': {1: {'outs': {f'v_{dn}': '$tokval'},
                           'home': {'_delete': [dn]}}},
                '$else': {'outs': {f'v_{dn}': '$tokval'}}}
            get_in_topo = topology
            for key in loc + (dn,):
                get_in_topo = get_in_topo[key]
            get_in_topo['home'] = ()
    for i, name in enumerate(names):
        loc = location(placement, i) if placement != 'mixed' else ()
        spec = step_spec(name)
        if dynamic == 'delete' and i == 0:
            # step a deletes the last step (a leaf of a later layer)
            victim = n - 1
            vloc = location(placement, victim) if placement != 'mixed' \
                else ()
            spec['schema']['victim_home'] = {}
            spec['update'] = {
                '$n': {1: {'outs': {'v_a': '$tokval'},
                           'victim_home': {'_delete': [NAMES[victim]]}}},
                '$else': {'outs': {'v_a': '$tokval'}}}
            extra = {'victim_home': rel(loc, vloc) if vloc else
                     rel(loc, ())}
        elif dynamic == 'generate' and i == 0:
            spec['schema']['root'] = {}
            newstep = step_spec('new')
            spec['update'] = {
                '$n': {1: {'outs': {'v_a': '$tokval'},
                           'root': {'_generate': [{
                               'key': 'gen',
                               'processes': {},
                               'steps': {'$probes': {'new': newstep}},
                               'flow': {'new': []},
                               'topology': {'new': {
                                   'outs': ('..', 'outs'),
                                   'shared': ('..', 'shared')}},
                               'initial_state': {}}]}}},
                '$else': {'outs': {'v_a': '$tokval'}}}
            extra = {'root': rel(loc, ())}
        elif dynamic == 'gen-steps' and i == 0:
            # two Step objects arrive under 'steps' of a _generate that
            # has NO flow: steps without flow entries run first, one at a
            # time, in declaration order
            spec['schema']['root'] = {}
            spec['update'] = {
                '$n': {1: {'outs': {'v_a': '$tokval'},
                           'root': {'_generate': [{
                               'key': 'gen',
                               'processes': {},
                               'steps': {'$probes': {
                                   'new': step_spec('new'),
                                   'new2': step_spec('new2')}},
                               'topology': {'new': {
                                   'outs': ('..', 'outs'),
                                   'shared': ('..', 'shared')},
                                   'new2': {
                                   'outs': ('..', 'outs'),
                                   'shared': ('..', 'shared')}},
                               'initial_state': {}}]}}},
                '$else': {'outs': {'v_a': '$tokval'}}}
            extra = {'root': rel(loc, ())}
        elif dynamic == 'gen-deriver' and i == 0:
            # a legacy deriver arrives at run time, listed under
            # 'processes' of a _generate (no flow entry)
            spec['schema']['root'] = {}
            # ... two of them: they run one at a time, in declaration
            # order, the second seeing what the first wrote in this phase
            newstep = step_spec('new', 'D')
            newstep2 = step_spec('new2', 'D')
            spec['update'] = {
                '$n': {1: {'outs': {'v_a': '$tokval'},
                           'root': {'_generate': [{
                               'key': 'gen',
                               'processes': {'$probes': {
                                   'new': newstep, 'new2': newstep2}},
                               'topology': {'new': {
                                   'outs': ('..', 'outs'),
                                   'shared': ('..', 'shared')},
                                   'new2': {
                                   'outs': ('..', 'outs'),
                                   'shared': ('..', 'shared')}},
                               'initial_state': {}}]}}},
                '$else': {'outs': {'v_a': '$tokval'}}}
            extra = {'root': rel(loc, ())}
        elif dynamic == 'quiet' and i == 0:
            # step a's update condition is false in its 2nd phase: it is
            # not invoked then, everything else runs as usual
            spec['cond'] = {'$n': {1: False}, '$else': True}
            extra = {}
        elif dynamic == 'kids' and i == 0:
            # step a adds a child in its 2nd run and deletes it in its 3rd
            spec['update'] = {
                '$n': {1: {'outs': {'v_a': '$tokval'},
                           'kids': {'_add': [{'key': 'k1',
                                              'state': {'v': 5}}]}},
                       2: {'outs': {'v_a': '$tokval'},
                           'kids': {'_delete': ['k1']}}},
                '$else': {'outs': {'v_a': '$tokval'}}}
            extra = {}
        else:
            extra = {}
        if dynamic == 'kids':
            extra = dict(extra, kids=rel(loc, ('kids',)))
        put(steps, loc + (name,), spec)
        topo = {'outs': rel(loc, ('outs',)), 'shared': rel(loc, ('shared',))}
        topo.update(extra)
        put(topology, loc + (name,), topo)
        deps = [rel(loc, (location(placement, a) if placement != 'mixed'
                          else ()) + (NAMES[a],))
                for (a, b) in edges if b == i]
        put(flow, loc + (name,), deps)
    state = {'kids': {'k0': {'v': 1}}} if dynamic == 'kids' else {}
    # scripts whose calls end BETWEEN two batches of process updates (and a
    # tick in which every process is quiet): no step phase may run there
    script = {'cut-half': [('run_for', 0.5, False)] * 7,
              'cut-1.5': [('run_for', 1.5, False), ('run_for', 1.5, False),
                          ('run_for', 1, True)],
              'cut-forced': [('run_for', 0.5, True), ('run_for', 2.5, False),
                             ('update', 1)],
              'no-procs': [('update', 2), ('run_for', 1, False)],
              }.get(dynamic, [('update', 3)])
    engine = {}
    if dynamic == 't0':
        # the engine starts at a non-zero time: the constructor still
        # runs one step phase
        engine = {'initial_global_time': 10.5}
    if dynamic == 'no-procs':
        processes = {k: v for k, v in processes.items()
                     if not k.startswith('p')}
        topology = {k: v for k, v in topology.items()
                    if not (k.startswith('p') and k[1:].isdigit())}
    return {'processes': processes, 'steps': steps, 'flow': flow,
            'topology': topology, 'script': script, 'engine': engine,
            'state': state, 'family': 'F', 'n': n, 'edges': tuple(edges),
            'derivers': n_derivers, 'deriver_kind': deriver_kind,
            'placement': placement, 'tss': tuple(tss), 'dynamic': dynamic}


def phases(trace):
    """Split the trace into step phases and the slots where they belong."""
    out = []          # list of dicts: {'slot': ..., 'invokes': [...]}
    last_snap = None
    cur = None
    slot = None
    last_clock_idx = None
    applies_since_clock = 0
    slots_required = []   # ('ctor',) or ('batch', t)
    seen_first_emit = False
    for idx, ev in enumerate(trace):
        k = ev[0]
        if k == 'invoke' and ev[7]:
            if cur is None:
                cur = {'slot': slot, 'invokes': [], 'idx': idx}
                out.append(cur)
            cur['invokes'].append(
                {'pid': ev[2], 'n': ev[3], 't': ev[4], 'ts': ev[5],
                 'states': ev[6], 'uid': ev[1], 'idx': idx,
                 'snap': last_snap[5] if last_snap is not None and
                 last_snap[1] == ev[1] else None})
            continue
        if k == 'return' or (k == 'cond' and ev[8]) or k == 'snap':
            if k == 'snap':
                last_snap = ev
            continue
        cur = None
        if k == 'build-begin':
            slot = ('ctor',)
            slots_required.append(slot)
        elif k == 'clock':
            if slot == ('ctor',) and not seen_first_emit:
                continue
            slot = None
            applies_since_clock = 0
            last_clock_idx = idx
            clock_t = ev[2]
        elif k == 'apply':
            applies_since_clock += 1
            slot = ('batch', clock_t, last_clock_idx)
            if not slots_required or slots_required[-1] != slot:
                slots_required.append(slot)
        elif k == 'emit':
            if ev[1] == 'history':
                seen_first_emit = True
            slot = None
        elif k in ('poll', 'cond', 'invoke', 'call-begin', 'call-end'):
            slot = None
    return out, slots_required


def check(spec, ex):
    out = []
    V = lambda rule, fp, msg: out.append(  # noqa
        fw.violation(rule, fp, msg, spec))
    if ex.error:
        V('C05.crash', sched.crash_fp(ex), f'unexpected {ex.error[2]!r}')
        return out
    n, edges = spec['n'], list(spec['edges'])
    names = [NAMES[i] for i in range(n)]
    dnames = [f'z{i}' for i in range(spec['derivers'])]
    gen = generations(n, edges)
    anc = ancestors(n, edges)
    ph, required = phases(ex.trace)
    # (i) placement
    by_slot = {}
    for p in ph:
        if p['slot'] is None:
            V('C05.placement', 'phase-outside-slot',
              f'steps {[i["pid"] for i in p["invokes"]]} ran at '
              f't={p["invokes"][0]["t"]} outside a step-phase slot '
              f'(constructor / after a batch, before its row)')
            return out
        by_slot.setdefault(p['slot'], []).append(p)
    for slot in required:
        got = by_slot.get(slot, [])
        if len(got) == 0:
            V('C05.placement', 'missing-phase-' + slot[0],
              f'no step phase in slot {slot[:2]}')
            return out
        if len(got) > 1:
            V('C05.placement', 'split-phase-' + slot[0],
              f'{len(got)} separate step phases in slot {slot[:2]} '
              f'(steps ran between two applications of one batch)')
            return out
    # per phase
    alive = set(names + dnames)
    n_tokens_applied = 0
    phase_no = 0
    tok_seen = {}
    for ev_idx, p in sorted((p['idx'], p) for p in ph):
        invs = p['invokes']
        pids = [i['pid'] for i in invs]
        expected = set(alive)
        # dynamic worlds: what exists at phase start
        if spec['dynamic'] in ('generate', 'gen-deriver', 'gen-steps') \
                and phase_no >= 2:
            expected = expected | {'new'}
            if spec['dynamic'] in ('gen-deriver', 'gen-steps'):
                expected = expected | {'new2'}
        if spec['dynamic'] == 'quiet' and phase_no == 1:
            expected = expected - {'a'}
        if spec['dynamic'] == 'deriver-suicide' and phase_no >= 2:
            expected = expected - {'z0'}
        if spec['dynamic'] == 'delete' and phase_no >= 1:
            victim = NAMES[n - 1]
            if phase_no >= 2 or True:
                # a's invocation number 1 happens in phase index 1
                expected = expected - {victim}
        cnt = {x: pids.count(x) for x in set(pids) | expected}
        for x, c in sorted(cnt.items()):
            if x in expected and c != 1:
                V('C05.once', 'step-ran-%d-times' % c,
                  f'phase {phase_no} at t={invs[0]["t"]}: step {x} ran '
                  f'{c} times; order {pids}')
                return out
            if x not in expected and c != 0:
                V('C05.once', 'unexpected-step-ran',
                  f'phase {phase_no}: step {x} ran but should not exist '
                  f'/ be deleted; order {pids}')
                return out
        if any(i['ts'] != 0 for i in invs):
            V('C05.timestep', 'nonzero-step-timestep',
              f'phase {phase_no}: timesteps {[i["ts"] for i in invs]}')
            return out
        pos = {i['pid']: k for k, i in enumerate(invs)}
        this_tok = {i['pid']: (i['pid'], i['n']) for i in invs}
        if spec['dynamic'] in ('gen-deriver', 'gen-steps') and \
                'new' in pos and any(
                pos[x] < pos['new'] for x in names if x in pos):
            V('C05.derivers', 'generated-deriver-runs-after-flow-steps',
              f'phase {phase_no}: order {pids}; the deriver generated at '
              f'run time must run before the flow steps')
            return out
        if spec['dynamic'] in ('gen-deriver', 'gen-steps') and \
                'new' in pos and 'new2' in pos:
            seen_by_2 = invs[pos['new2']]['states']['outs'].get('v_new')
            if pos['new2'] < pos['new'] or seen_by_2 != this_tok['new']:
                V('C05.derivers', 'generated-derivers-not-one-at-a-time',
                  f'phase {phase_no}: order {pids}; deriver new2 read '
                  f'v_new={seen_by_2}, new wrote {this_tok["new"]} in this '
                  f'phase: derivers generated at run time must run one at '
                  f'a time in declaration order')
                return out
        # derivers first, in declaration order, one at a time
        for k, dn in enumerate([d for d in dnames if d in expected]):
            if pos.get(dn) != k:
                V('C05.derivers', 'derivers-not-first-in-order',
                  f'phase {phase_no}: order {pids}, derivers {dnames} must '
                  f'come first in declaration order')
                return out
            st = invs[k]['states']['outs']
            for prev in [d for d in dnames if d in expected][:k]:
                if st.get(f'v_{prev}') != this_tok[prev]:
                    V('C05.derivers', 'deriver-does-not-see-previous',
                      f'phase {phase_no}: deriver {dn} read v_{prev}='
                      f'{st.get("v_" + prev)}, expected {this_tok[prev]}')
                    return out
        for j, name in enumerate(names):
            if name not in pos:
                continue
            me = invs[pos[name]]
            st = me['states']['outs']
            for a in anc[j]:
                an = NAMES[a]
                if an in pos and pos[an] > pos[name]:
                    V('C05.order', 'ran-before-dependency',
                      f'phase {phase_no}: {name} ran before its '
                      f'(transitive) dependency {an}; order {pids}')
                    return out
            for (a, b) in edges:
                if b == j and NAMES[a] in this_tok:
                    an = NAMES[a]
                    if st.get(f'v_{an}') != this_tok[an]:
                        V('C05.order', 'dependency-update-not-applied',
                          f'phase {phase_no}: {name} read v_{an}='
                          f'{st.get("v_" + an)} but {an} wrote '
                          f'{this_tok[an]} in this phase')
                        return out
            for dn in [d for d in dnames if d in expected]:
                if st.get(f'v_{dn}') != this_tok.get(dn):
                    V('C05.derivers', 'flow-step-before-deriver-update',
                      f'phase {phase_no}: {name} read v_{dn}='
                      f'{st.get("v_" + dn)}')
                    return out
        # glob views are current: a dependent step already sees what a
        # dependency added / deleted in this phase
        if spec['dynamic'] == 'kids':
            for i in invs:
                view = i['states'].get('kids')
                actual = {k: {'v': x['v']} for k, x in
                          (i['snap'] or {}).get('kids', {}).items()}
                if i['snap'] is not None and view != actual:
                    V('C05.observe', 'stale-glob-view-in-phase',
                      f'phase {phase_no}: step {i["pid"]} sees kids '
                      f'{sorted(view)} but the hierarchy holds '
                      f'{sorted(actual)}')
                    return out
                j = names.index(i['pid']) if i['pid'] in names else None
                if j is not None and 0 in anc[j]:
                    want = phase_no == 1
                    if ('k1' in view) != want:
                        V('C05.observe', 'dependency-structure-not-seen',
                          f'phase {phase_no}: step {i["pid"]} depends on a '
                          f'but sees kids {sorted(view)}')
                        return out
        # same generation => same snapshot
        by_gen = {}
        for j, name in enumerate(names):
            if name in pos:
                by_gen.setdefault(gen[j], []).append(invs[pos[name]])
        for g, members in by_gen.items():
            view = lambda m: fw.jdump(  # noqa
                {k: m['states'][k] for k in ('outs', 'shared', 'kids')
                 if k in m['states']})
            ref = view(members[0])
            for m in members[1:]:
                if view(m) != ref:
                    V('C05.snapshot', 'generation-members-see-different-'
                      'state', f'phase {phase_no}: steps '
                      f'{[x["pid"] for x in members]} of generation {g} '
                      f'saw different states')
                    return out
        # steps observe this batch's process updates
        slot = p['slot']
        if slot[0] == 'batch':
            n_tokens_applied = sum(
                1 for ev in ex.trace[:p['idx']] if ev[0] == 'apply') // 2
        for i in invs:
            if i['states']['shared']['num'] != n_tokens_applied:
                V('C05.observe', 'step-misses-process-updates',
                  f'phase {phase_no} at t={i["t"]}: step {i["pid"]} read '
                  f'shared.num={i["states"]["shared"]["num"]}, '
                  f'{n_tokens_applied} process updates were applied')
                return out
        phase_no += 1
    return out


def run_job(job, acc):
    spec = world(*job)
    ex = worlds.execute(spec, guard_factory=sched.lasso_guard)
    viols = check(spec, ex)
    n_ph = len(phases(ex.trace)[0])
    order = tuple(ev[2] for ev in ex.trace if ev[0] == 'invoke' and ev[7])
    acc.case(key=job, outcome=f'F:phases={n_ph}:first=' + ''.join(
        order[:job[0] + job[2]]),
             nontrivial=bool(job[1]) or job[2] > 0)
    acc.state(order[:job[0] + job[2]])
    for a, b in zip(order, order[1:]):
        acc.transition(a, b)
    acc.validated += 1
    for v in viols:
        acc.violate(v)
    if len(acc.samples) < 2 and len(job[1]) >= 3:
        acc.sample({'n': job[0], 'edges': [
            f'{NAMES[a]}->{NAMES[b]}' for a, b in job[1]],
            'derivers': job[2], 'placement': job[4],
            'first_phase_order': order[:job[0] + job[2]]})


def jobs(ctx):
    out = []
    nmax = 4
    dags = {n: all_dags(n) for n in range(0, nmax + 1)}
    for n in range(1, nmax + 1):
        for edges in dags[n]:
            for nd, kind in ((0, 'steps'), (1, 'steps'), (2, 'steps'),
                             (1, 'process'), (2, 'process')):
                if ctx.quick and n == 4 and nd == 2 and kind == 'process':
                    continue
                for placement in PLACEMENTS:
                    if ctx.quick and n == 4 and placement in ('deep',) \
                            and nd > 0:
                        continue
                    for tss in ((1,), (1, 2)):
                        if ctx.quick and n == 4 and tss == (1, 2) and nd:
                            continue
                        out.append((n, edges, nd, kind, placement, tss))
    # derivers only
    for nd, kind in ((1, 'steps'), (2, 'steps'), (1, 'process'),
                     (2, 'process')):
        for placement in DERIVER_PLACEMENTS:
            out.append((0, (), nd, kind, placement, (1,)))
    # derivers at different nesting depths, with every small DAG
    for n in (1, 2, 3):
        for edges in dags[n]:
            for kind in ('steps', 'process'):
                out.append((n, edges, 2, kind, 'mixed', (1,)))
    # dynamic worlds: step a deletes the last step / generates a new one
    for n in (2, 3, 4):
        for edges in dags[n]:
            last = n - 1
            # victim must be a leaf (nobody depends on it) in a later layer
            if any(a == last for (a, b) in edges):
                continue
            for placement in PLACEMENTS:
                if (0, last) in edges or n >= 2:
                    if generations(n, edges)[last] > generations(
                            n, edges)[0]:
                        out.append((n, edges, 0, 'steps', placement, (1,),
                                    'delete'))
        for edges in dags[n][:40 if ctx.quick else None]:
            out.append((n, edges, 0, 'steps', 'flat', (1,), 'generate'))
            out.append((n, edges, 0, 'steps', 'flat', (1,), 'gen-deriver'))
            out.append((n, edges, 0, 'steps', 'flat', (1,), 'gen-steps'))
        for edges in dags[n]:
            for placement in (('flat', 'split') if ctx.quick
                              else PLACEMENTS):
                out.append((n, edges, 0, 'steps', placement, (1,), 'kids'))
            out.append((n, edges, 0, 'steps', 'flat', (1,), 'quiet'))
            if n == 2:
                for kind in ('steps', 'process'):
                    for placement in ('flat', 'comp'):
                        out.append((n, edges, 3, kind, placement, (1,),
                                    'deriver-suicide'))
            if n == 2 or not ctx.quick:
                out.append((n, edges, 1, 'steps', 'comp', (1,), 'quiet'))
    for n in (1, 2):
        for edges in dags[n]:
            for dyn in ('cut-half', 'cut-1.5', 'cut-forced', 'all-quiet',
                        'no-procs', 't0'):
                for nd, placement in ((0, 'flat'), (1, 'comp')):
                    for tss in ((2,), (1, 2)):
                        if dyn == 'no-procs' and tss != (2,):
                            continue
                        out.append((n, edges, nd, 'steps', placement, tss,
                                    dyn))
    if not ctx.quick:
        for edges in all_dags(5):
            out.append((5, edges, 0, 'steps', 'flat', (1,)))
            out.append((5, edges, 1, 'steps', 'comp', (1, 2)))
    return out


def run(ctx):
    return ctx.map(run_job, jobs(ctx))


def replay(case):
    acc = fw.Acc()
    job = (case['n'], case['edges'], case['derivers'], case['deriver_kind'],
           case['placement'], case['tss']) + (
        (case['dynamic'],) if case.get('dynamic') else ())
    run_job(job, acc)
    return [v for exs in acc.viol_examples.values() for v in exs]


RULE += (
    ' Cut worlds: scripts whose calls end BETWEEN two batches of process updates (run_for(0.5) seven times against timesteps 2 and 1+2; 1.5 + 1.5 + forced 1; a forced 0.5 first), a tick in which every process is quiet, and a composite without any process: step phases run in the constructor and after each batch of process updates only - never in an iteration that applies nothing.')

RULE += (
    ' Worlds t0: the engine is built with initial_global_time = 10.5 (the constructor phase still runs).')
