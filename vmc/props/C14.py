"""C14 - serialization round-trips every emittable value and yields plain
JSON data.  All value trees of depth <= 2 (3) over a boundary alphabet."""
import collections
import itertools
import math
import time

import numpy as np

from vivarium.core.serialize import serialize_value, deserialize_value
from vivarium.core.emitter import RAMEmitter
from vivarium.core.process import Process
from vivarium.library.units import units, remove_units

from vmc import framework as fw

ID = 'C14'
LEVEL = 'exploration'
EXHAUSTIVE = True
RULE = (
    'leaves: boundary ints/floats/bools/None/strings, numpy scalars and '
    'arrays, quantities (magnitudes {0, -2.25, nan, inf, 1e-300, 1e300, '
    '2^53-1, np.float64, 1-D array} x 10 units incl. ones whose name starts with nan-), Unit objects, a process, a '
    'function; containers list/tuple/set/str-keyed dict; ALL trees of '
    'depth <= 2 and width <= 2 over the alphabet (thorough: depth 3 over a '
    'reduced alphabet); rejects (object(), complex, bytes, huge int, '
    'int/tuple/np.str_ keys) at every depth. Oracle: JSON-plainness, '
    'idempotence, TypeError for rejects, deserialize(serialize(x)) == '
    'normal form (NaN-aware), same through RAMEmitter. Distinct by repr of '
    'the tree; non-trivial when the tree holds a non-JSON-native leaf or a '
    'container.')
ASSUMPTIONS = [
    'plain strings shaped like serializer output ("!units[...]") are '
    'outside the alphabet',
    'plain floats are finite (orjson emits null for inf/nan by design)',
    'a Unit object deserialises to the quantity 1 * unit (the only '
    'deserialiser there is); set order is not significant',
]
BOUNDS = {'quick': {'depth': 2, 'width': 2},
          'thorough': {'depth': 3, 'width': 2}}


class ToyProc(Process):
    defaults = {'k': 1}

    def ports_schema(self):
        return {}

    def next_update(self, timestep, states):
        return {}


def a_function(x):
    return x


PROC = None


def leaf_alphabet(reduced=False):
    """[(label, maker)] - makers build a fresh value each time."""
    global PROC
    if PROC is None:
        PROC = ToyProc({'name': 'toy'})
    L = []
    add = lambda label, mk: L.append((label, mk))  # noqa
    for v in (0, -1, 2 ** 53 - 1):
        add(f'int:{v}', lambda v=v: v)
    for v in (0.0, -1.5, 0.1, 1e-300, 1e300):
        add(f'float:{v}', lambda v=v: v)
    add('True', lambda: True)
    add('False', lambda: False)
    add('None', lambda: None)
    for v in ('', 'a', 'a[b]!', '!units'):
        add(f'str:{v!r}', lambda v=v: v)
    add('np.int64', lambda: np.int64(7))
    add('np.float64', lambda: np.float64(2.5))
    add('np.bool_', lambda: np.bool_(True))
    add('arr:int1d', lambda: np.array([1, 2]))
    add('arr:float1d', lambda: np.array([0.5, -1.5]))
    add('arr:str1d', lambda: np.array(['x', 'y']))
    add('arr:int2d', lambda: np.array([[1, 2], [3, 4]]))
    # zero-dimensional arrays are scalars
    add('arr:0d-float', lambda: np.array(2.5))
    add('arr:0d-int', lambda: np.array(3))
    # arrays that orjson does not take natively (fallback serializer):
    # non-contiguous views, Fortran order, float16, object arrays
    add('arr:transposed', lambda: np.array([[0.0, 1.0], [2.0, 3.0]]).T)
    add('arr:strided', lambda: np.arange(6.0)[::2])
    add('arr:column', lambda: np.array([[1, 2], [3, 4]])[:, 1])
    add('arr:fortran', lambda: np.asfortranarray(
        np.array([[1.5, 2.5], [3.5, 4.5]])))
    add('arr:float16', lambda: np.array([0.5, 1.5], dtype=np.float16))
    add('arr:objquant', lambda: np.array(
        [1.5 * units.fg, 2 * units.fg], dtype=object))
    mags = [('0', 0), ('-2.25', -2.25), ('nan', math.nan),
            ('inf', math.inf), ('1e-300', 1e-300), ('1e300', 1e300),
            ('2^53-1', 2 ** 53 - 1), ('npf', np.float64(1.5)),
            ('arr', None)]
    unit_list = [('fg', units.fg), ('um', units.um),
                 ('mg/mL', units.mg / units.mL), ('1/s', 1 / units.s),
                 ('fg2', units.fg ** 2),
                 ('dimless', units.dimensionless),
                 ('mmol/L/s', units.mmol / units.L / units.s),
                 ('count', units.count), ('nm', units.nm),
                 ('ng/L', units.ng / units.L)]
    for (ml, m), (ul, u) in itertools.product(mags, unit_list):
        if ml == 'arr':
            add(f'q:arr*{ul}', lambda u=u: np.array([1.0, 2.5]) * u)
        else:
            add(f'q:{ml}*{ul}', lambda m=m, u=u: m * u)
    # array quantities with exactly one element and with none
    add('q:arr1*fg', lambda: np.array([2.5]) * units.fg)
    add('q:arr0*fg', lambda: np.array([]) * units.fg)
    add('q:arr2d*um', lambda: np.array([[1.0], [2.0]]) * units.um)
    for (ul, u) in unit_list[:3] + unit_list[-2:]:
        add(f'unit:{ul}', lambda u=u: (1 * u).units)
    add('process', lambda: PROC)
    add('function', lambda: a_function)
    if reduced:
        keep = {'int:0', 'float:0.1', 'None', "str:'a'", 'np.float64',
                'arr:transposed', 'arr:0d-float', 'arr:objquant',
                'arr:float1d', 'q:nan*fg', 'q:-2.25*mg/mL', 'q:arr*um',
                'q:arr1*fg', 'q:arr0*fg',
                'unit:fg', 'process'}
        L = [x for x in L if x[0] in keep]
    return L


REJECTS = [('object', lambda: object()), ('complex', lambda: 1 + 2j),
           ('bytes', lambda: b'x'), ('hugeint', lambda: 2 ** 64),
           ('intkey', lambda: {1: 2}), ('tuplekey', lambda: {(1,): 2}),
           ('npstrkey', lambda: {np.str_('a'): 1}),
           # callable, but neither functions nor processes
           ('functor', lambda: _Functor()), ('class', lambda: _Functor),
           ('units-registry', lambda: units),
           # tuple SUBCLASSES (orjson hands them to the fallback hook)
           ('namedtuple', lambda: _Point(1.0, 2.0)),
           ('struct_time', lambda: time.gmtime(0))]


_Point = collections.namedtuple('_Point', ['x', 'y'])


class _Functor:
    def __call__(self):
        return 1


def normal_form(x):
    """What deserialize(serialize(x)) must equal."""
    if isinstance(x, (bool, type(None), str)):
        return x
    if isinstance(x, np.bool_):
        return bool(x)
    if isinstance(x, np.integer):
        return int(x)
    if isinstance(x, np.floating):
        return float(x)
    if isinstance(x, (int, float)):
        return x
    if isinstance(x, np.ndarray):
        if x.ndim == 0:
            return normal_form(x.item())
        if x.dtype == object:
            return [normal_form(v) for v in list(x)]
        return [normal_form(v) for v in x.tolist()]
    if isinstance(x, (list, tuple)):
        return [normal_form(v) for v in x]
    if isinstance(x, (set, frozenset)):
        return ('set', [normal_form(v) for v in x])
    if isinstance(x, dict):
        return {k: normal_form(v) for k, v in x.items()}
    if isinstance(x, type(units.fg)):
        return 1 * x
    if isinstance(x, type(1 * units.fg)):
        if isinstance(x.magnitude, np.ndarray):
            return [normal_form(m * x.units) for m in x.magnitude.tolist()]
        return x
    if isinstance(x, Process):
        return ('opaque-string', 'ProcessSerializer')
    if callable(x):
        return ('opaque-string', 'FunctionSerializer')
    raise ValueError(x)


def equal(got, want):
    if isinstance(want, tuple) and want and want[0] == 'opaque-string':
        return isinstance(got, str) and want[1] in got
    if isinstance(want, tuple) and want and want[0] == 'set':
        if not isinstance(got, list) or len(got) != len(want[1]):
            return False
        rest = list(got)
        for w in want[1]:
            for i, g in enumerate(rest):
                if equal(g, w):
                    del rest[i]
                    break
            else:
                return False
        return True
    if isinstance(want, type(1 * units.fg)):
        if not isinstance(got, type(1 * units.fg)):
            return False
        if got.units != want.units:
            return False
        gm, wm = got.magnitude, want.magnitude
        if isinstance(wm, float) and math.isnan(wm):
            return isinstance(gm, float) and math.isnan(gm)
        return gm == wm and float(gm) == float(wm)
    if isinstance(want, dict):
        return (isinstance(got, dict) and list(got) == list(want)
                and all(equal(got[k], want[k]) for k in want))
    if isinstance(want, list):
        return (isinstance(got, list) and len(got) == len(want)
                and all(equal(g, w) for g, w in zip(got, want)))
    if isinstance(want, bool) or want is None:
        return got is want
    if isinstance(want, float):
        return isinstance(got, float) and got == want
    if isinstance(want, int):
        return isinstance(got, int) and not isinstance(got, bool) \
            and got == want
    return type(got) is type(want) and got == want


def is_plain(x):
    if x is None or isinstance(x, (bool, str)):
        return True
    if type(x) in (int, float):
        return True
    if type(x) is list:
        return all(is_plain(v) for v in x)
    if type(x) is dict:
        return all(type(k) is str and is_plain(v) for k, v in x.items())
    return False


def build(shape, leaves):
    """shape: ('leaf', i) | ('list'|'tuple'|'set'|'dict', [shapes])."""
    kind = shape[0]
    if kind == 'leaf':
        return leaves[shape[1]][1]()
    kids = [build(s, leaves) for s in shape[1]]
    if kind == 'list':
        return kids
    if kind == 'tuple':
        return tuple(kids)
    if kind == 'set':
        return set(kids)
    return {k: v for k, v in zip(('k1', 'k2'), kids)}


def label(shape, leaves):
    if shape[0] == 'leaf':
        return leaves[shape[1]][0]
    return f'{shape[0]}({", ".join(label(s, leaves) for s in shape[1])})'


def hashable_leaf(lbl):
    return not lbl.startswith(('arr', 'q:arr', 'process')) or False


def containers(children_1, children_2, leaves):
    """All list/tuple/dict/set shapes with 0, 1 or 2 children."""
    out = []
    children_1 = list(children_1)
    children_2 = list(children_2)
    for kind in ('list', 'tuple', 'dict', 'set'):
        out.append((kind, []))
        for a in children_1:
            if kind == 'set' and not (
                    a[0] == 'leaf' and _set_ok(leaves[a[1]][0])):
                continue
            out.append((kind, [a]))
        for a, b in children_2:
            if kind == 'set':
                if not (a[0] == 'leaf' and b[0] == 'leaf'
                        and _set_ok(leaves[a[1]][0])
                        and _set_ok(leaves[b[1]][0]) and a[1] < b[1]):
                    continue
            out.append((kind, [a, b]))
    return out


def shapes(mode, leaves):
    """mode 'd1': all trees of depth <= 1, width <= 2 (full alphabet).
    mode 'd2q': depth-2 trees whose children are a depth-1 tree alone or a
                depth-1 tree paired with a leaf (either order).
    mode 'd2':  all depth-2 trees of width <= 2.
    mode 'd3':  depth-3 chains: one depth-2 ('d2q') child, alone or paired
                with a leaf."""
    base = [('leaf', i) for i in range(len(leaves))]
    if mode == 'd1':
        return base + containers(base, itertools.product(base, repeat=2),
                                 leaves)
    d1 = containers(base, itertools.product(base, repeat=2), leaves)
    if mode == 'd2q':
        pairs = itertools.chain(itertools.product(d1, base),
                                itertools.product(base, d1))
        return containers(d1, pairs, leaves)
    if mode == 'd2':
        return containers(d1, itertools.product(d1 + base, repeat=2),
                          leaves)
    d2 = shapes('d2q', leaves)
    pairs = itertools.chain(itertools.product(d2, base[:3]),
                            itertools.product(base[:3], d2))
    return containers(d2, pairs, leaves)


def _set_ok(lbl):
    # hashable, and no two members that compare equal (0 == False ...)
    return lbl.startswith(('str:', 'int:-1', 'int:9', 'float:0.1',
                           'float:-1.5', 'None'))


def check_value(x, lbl, acc, emitter=True):
    case = {'tree': lbl}
    V = lambda rule, fp, msg: acc.violate(  # noqa
        fw.violation(rule, fp, msg, case))
    want = normal_form(x)
    try:
        s = serialize_value(x)
    except Exception as e:  # noqa
        V('C14.serialize', f'raises-{type(e).__name__}',
          f'serialize_value({lbl}) raised {e!r}')
        return
    if not is_plain(s):
        V('C14.plain', 'not-plain-json', f'serialize_value({lbl}) = {s!r}')
        return
    try:
        s2 = serialize_value(s)
    except Exception as e:  # noqa
        V('C14.idempotent', 'raises', f'serialize(serialize({lbl})): {e!r}')
        return
    if not equal(s2, s) or fw.jdump(s2) != fw.jdump(s):
        V('C14.idempotent', 'not-idempotent',
          f'serialize(serialize({lbl})) = {s2!r} != {s!r}')
    s_before = fw.jdump(s)
    try:
        d = deserialize_value(s)
    except Exception as e:  # noqa
        V('C14.roundtrip', f'deserialize-raises-{type(e).__name__}',
          f'deserialize_value({s!r}) raised {e!r}')
        return
    try:
        s_after = fw.jdump(s)
    except Exception as e:  # noqa
        s_after = f'<not JSON any more: {e!r}>'
    if s_after != s_before:
        V('C14.plain', 'deserialize-modified-its-input',
          f'{lbl}: after deserialize_value(s) the serialized data s reads '
          f'{s_after[:200]}, it was {s_before[:200]}')
        return
    if not equal(d, want):
        kind = 'quantity' if 'q:' in lbl or 'unit:' in lbl else 'structure'
        V('C14.roundtrip', f'{kind}-differs',
          f'{lbl}: serialized {s!r}, deserialized {d!r}, expected {want!r}')
    if is_plain(x) and not equal(d, x):
        V('C14.roundtrip', 'plain-data-changed', f'{x!r} came back {d!r}')
    if emitter:
        em = RAMEmitter({'type': 'timeseries'})
        em.emit({'table': 'history', 'data': {'time': 1.0, 'v': x}})
        try:
            back = em.get_data_deserialized()[1.0]['v']
        except Exception as e:  # noqa
            V('C14.emitter', 'get_data_deserialized-raises', f'{lbl}: {e!r}')
            return
        if not equal(back, want):
            V('C14.emitter', 'emitter-roundtrip-differs',
              f'{lbl}: emitter gave {back!r}, expected {want!r}')
            return
        # reading the deserialized view leaves the stored raw data plain
        raw = em.get_data()[1.0]['v']
        if not is_plain(raw) or fw.jdump(raw) != fw.jdump(s):
            V('C14.emitter', 'raw-history-changed-by-deserialized-read',
              f'{lbl}: after get_data_deserialized() get_data() holds '
              f'{raw!r}, serialize_value gives {s!r}')


_SHAPES = {}


def get_shapes(mode, reduced):
    key = (mode, reduced)
    if key not in _SHAPES:
        _SHAPES[key] = shapes(mode, leaf_alphabet(reduced))
    return _SHAPES[key]


def run_chunk(job, acc):
    mode, reduced, lo, hi = job
    leaves = leaf_alphabet(reduced)
    all_shapes = get_shapes(mode, reduced)
    for shape in all_shapes[lo:hi]:
        lbl = label(shape, leaves)
        x = build(shape, leaves)
        native = shape[0] == 'leaf' and lbl.startswith(
            ('int', 'float', 'True', 'False', 'None', 'str'))
        acc.case(key=lbl, outcome=f'{mode}:{shape[0]}',
                 nontrivial=not native)
        check_value(x, lbl, acc, emitter=(shape[0] == 'leaf'
                                          or len(shape[1]) < 2))
        if len(acc.samples) < 3 and shape[0] == 'dict' and len(
                shape[1]) == 2 and 'q:' in lbl:
            try:
                acc.sample({'tree': lbl, 'serialized': serialize_value(x)})
            except Exception:  # noqa  (judged by check_value above)
                pass


def run_rejects(acc):
    wrappers = [('bare', lambda v: v), ('list', lambda v: [v]),
                ('dict', lambda v: {'k': v}),
                ('deep', lambda v: {'k': [1, {'j': (v,)}]}),
                ('tuple', lambda v: (0, v))]
    for (rl, mk), (wl, wrap) in itertools.product(REJECTS, wrappers):
        x = wrap(mk())
        acc.case(key=('reject', rl, wl), outcome='reject')
        case = {'tree': f'{wl}({rl})'}
        try:
            s = serialize_value(x)
        except TypeError:
            continue
        except Exception as e:  # noqa
            acc.violate(fw.violation(
                'C14.reject', f'raises-{type(e).__name__}-not-TypeError',
                f'serialize_value({wl}({rl})) raised {e!r}', case))
            continue
        acc.violate(fw.violation(
            'C14.reject', 'unsupported-value-accepted',
            f'serialize_value({wl}({rl})) returned {s!r}', case))


# ----------------------------------------------------------------------
# one fallback hook / one emitter used for several serializations: what is
# serialized is the value AS IT IS NOW, whatever the hook has seen before

def _mutables():
    """[(label, maker, in-place mutator)] - values that go through the
    fallback serializers."""
    def grow_set(x):
        x.add('zz')

    def scale(x):
        x *= 2

    def rename(x):
        x[0] = 'q'

    def scale_q(x):
        x.magnitude[:] = x.magnitude * 2

    def swap_item(x):
        x[0] = 5 * units.um
    return [
        ('set', lambda: {'a'}, grow_set),
        ('arr:str1d', lambda: np.array(['x', 'y']), rename),
        ('arr:strided', lambda: np.arange(6.0)[::2], scale),
        ('arr:float16', lambda: np.array([0.5, 1.5], dtype=np.float16),
         scale),
        ('q:arr*fg', lambda: np.array([1.0, 2.5]) * units.fg, scale_q),
        ('arr:objquant', lambda: np.array(
            [1.5 * units.fg, 2 * units.fg], dtype=object), swap_item),
    ]


def run_reuse(acc):
    from vivarium.core.serialize import make_fallback_serializer_function
    wrappers = [('bare', lambda v: v), ('dict', lambda v: {'k': v}),
                ('deep', lambda v: {'k': [1, {'j': (v,)}]})]
    for (lbl, mk, mutate), (wl, wrap) in itertools.product(
            _mutables(), wrappers):
        for route in ('hook', 'emitter', 'hook-new-object'):
            case = {'tree': f'reuse:{route}:{wl}({lbl})'}
            acc.case(key=('reuse', route, lbl, wl), outcome='reuse')
            V = lambda rule, fp, msg: acc.violate(  # noqa
                fw.violation(rule, fp, msg, case))
            try:
                x = mk()
                if route == 'emitter':
                    em = RAMEmitter({'type': 'timeseries'})
                    em.emit({'table': 'history',
                             'data': {'time': 1.0, 'v': wrap(x)}})
                    first_want = serialize_value(wrap(x))
                    mutate(x)
                    em.emit({'table': 'history',
                             'data': {'time': 2.0, 'v': wrap(x)}})
                    data = em.get_data()
                    first, second = data[1.0]['v'], data[2.0]['v']
                else:
                    hook = make_fallback_serializer_function()
                    first = serialize_value(wrap(x), hook)
                    first_want = serialize_value(wrap(x))
                    if route == 'hook':
                        mutate(x)
                    else:
                        # a NEW object (possibly at the address of the
                        # one just dropped) with other content
                        del x
                        x = mk()
                        mutate(x)
                    second = serialize_value(wrap(x), hook)
                want = serialize_value(wrap(x))
            except Exception as e:  # noqa
                V('C14.serialize', f'reuse-raises-{type(e).__name__}',
                  f'{case["tree"]}: {e!r}')
                continue
            if not equal(first, first_want) or \
                    fw.jdump(first) != fw.jdump(first_want):
                V('C14.reuse', 'earlier-serialization-changed',
                  f'{case["tree"]}: the first serialization reads '
                  f'{first!r} after the value changed, it was '
                  f'{first_want!r}')
            if not equal(second, want) or fw.jdump(second) != fw.jdump(want):
                V('C14.reuse', 'stale-serialization',
                  f'{case["tree"]}: serialized again after an in-place '
                  f'change gives {second!r}, a fresh serialization gives '
                  f'{want!r}')


def plan(ctx):
    plans = [('d1', False), ('d2q', True)]
    if not ctx.quick:
        plans += [('d2', True), ('d3', True)]
    return plans


def run(ctx):
    jobs = []
    step = 1500
    for mode, reduced in plan(ctx):
        n = len(get_shapes(mode, reduced))   # built before the fork
        jobs += [(mode, reduced, lo, min(lo + step, n))
                 for lo in range(0, n, step)]
    acc = ctx.map(run_chunk, jobs, chunk=1)
    run_rejects(acc)
    run_reuse(acc)
    acc.counters['leaf_alphabet'] = len(leaf_alphabet(False))
    acc.counters['reduced_alphabet'] = len(leaf_alphabet(True))
    return acc


def replay(case):
    acc = fw.Acc()
    for mode, reduced in (('d1', False), ('d2q', True), ('d2', True),
                          ('d3', True)):
        leaves = leaf_alphabet(reduced)
        for shape in get_shapes(mode, reduced):
            if label(shape, leaves) == case['tree']:
                check_value(build(shape, leaves), case['tree'], acc)
                return [v for exs in acc.viol_examples.values() for v in exs]
    run_rejects(acc)
    run_reuse(acc)
    return [v for exs in acc.viol_examples.values() for v in exs
            if v['case'] == case]

RULE += (
    ' Quantity arrays of every small shape (empty, one element, 1-D, 2-D) keep their structure and units through serialize/deserialize and the emitter; a Unit object stays a Unit (not a quantity of magnitude 1).')

RULE += (
    ' Zero-dimensional arrays are scalars. Reuse: ONE fallback hook (make_fallback_serializer_function) and one RAMEmitter serialize a value, the value (a set, a string / strided / float16 array, an array quantity, an object array of quantities; bare, in a dictionary, deep) is changed in place or replaced by a new object, and it is serialized again: the second result equals a fresh serialization and the first one still reads what the value was.')

RULE += (
    ' Rejects include tuple SUBCLASSES (a named tuple, time.struct_time). deserialize_value leaves the serialized data it is given as it was, and get_data_deserialized() leaves the emitter\'s raw history plain.')
