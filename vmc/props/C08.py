"""C08 - updates are combined with the current value by the declared
updater (all registered updaters x value domains x shapes x batches)."""
import copy
import itertools

import numpy as np

from vivarium.core.process import Process
from vivarium.core.store import Store
from vivarium.library.units import units, Quantity

from vmc import framework as fw
from vmc import probes, worlds

ID = 'C08'
LEVEL = 'exploration'
EXHAUSTIVE = True
RULE = (
    'updater in {default, accumulate, set, null, merge, '
    'nonnegative_accumulate, dict_value, user function, per-update '
    '_updater override} x (current value, update) over small domains '
    '(ints, floats, int/float arrays, dicts of depth <= 2 over {a, b, c}, '
    '_add/_delete lists, quantities in um/mm/nm resp. fg/pg) x node depth '
    '1-3 with 0-2 untouched siblings x batch size 1-3 (several processes, '
    'two ports of one process, explicit _multi_update, an update that '
    'names its own updater followed by plain updates); each case through '
    'Store.apply_update and through Engine.update(1). Oracle: reference '
    'updaters, fold over the batch in some order, siblings untouched, '
    'update object not modified, declared units kept. Distinct by '
    '(updater, value, updates, shape, route).')
ASSUMPTIONS = [
    'for non-commuting batches any application order is accepted',
    'unit magnitudes are compared with relative tolerance 1e-12',
    'dict-valued leaf updates returned through two ports of one process '
    'are outside the alphabet (the engine merges update trees key-wise)',
]
BOUNDS = {'quick': {'batch': 3, 'pairs': 'first 3 updates',
                    'triples': 'first 2 updates'},
          'thorough': {'batch': 4, 'pairs': 'all updates',
                       'triples': 'all updates',
                       'quadruples': 'first 2 updates'}}


def user_updater(current, update):
    return ('u', current, update)


probes._register(probes.updater_registry, 'vmc_user', user_updater)


# ---------------------------------------------------------------- reference
def ref_merge(cur, new):
    out = copy.deepcopy(cur)
    for k, v in new.items():
        if isinstance(v, dict) and isinstance(out.get(k), dict):
            out[k] = ref_merge(out[k], v)
        else:
            out[k] = copy.deepcopy(v)
    return out


def ref_dict_value(cur, upd):
    out = copy.deepcopy(cur)
    for k, v in upd.items():
        if k == '_add':
            for a in v:
                out[a['key']] = copy.deepcopy(a['state'])
        elif k == '_delete':
            for d in v:
                del out[d]
        elif k in out:
            out[k].update(copy.deepcopy(v))
        else:
            raise KeyError(k)
    return out


def ref_nonneg(v, u):
    s = v + u
    if isinstance(s, np.ndarray):
        return np.where(s < 0, 0, s)
    return s if s >= 0 else 0 * s


REF = {
    'default': lambda v, u: v + u,
    'accumulate': lambda v, u: v + u,
    'set': lambda v, u: copy.deepcopy(u),
    'null': lambda v, u: v,
    'merge': ref_merge,
    'nonnegative_accumulate': ref_nonneg,
    'dict_value': ref_dict_value,
    'vmc_user': user_updater,
}


def same(a, b):
    if isinstance(a, Quantity) or isinstance(b, Quantity):
        if not (isinstance(a, Quantity) and isinstance(b, Quantity)):
            return False
        if a.units != b.units:
            return False
        am, bm = a.magnitude, b.magnitude
        return abs(am - bm) <= 1e-12 * max(1.0, abs(am), abs(bm))
    if isinstance(a, np.ndarray) or isinstance(b, np.ndarray):
        return (isinstance(a, np.ndarray) and isinstance(b, np.ndarray)
                and a.shape == b.shape and a.dtype.kind == b.dtype.kind
                and bool(np.all(a == b)))
    if isinstance(a, dict) and isinstance(b, dict):
        return set(a) == set(b) and all(same(a[k], b[k]) for k in a)
    if isinstance(a, tuple) and isinstance(b, tuple):
        return len(a) == len(b) and all(same(x, y) for x, y in zip(a, b))
    if isinstance(a, bool) or isinstance(b, bool):
        return a is b
    return type(a) is type(b) and a == b


# ------------------------------------------------------------------ domains
def domain(updater):
    """[(value, [candidate updates])] as zero-argument makers."""
    ints = [-2, 0, 1, 3]
    floats = [-1.5, 0.0, 0.5]
    arrs_i = [lambda: np.array([1, -2]), lambda: np.array([0, 3])]
    arrs_f = [lambda: np.array([0.5, -1.5]), lambda: np.array([0.0, 2.0])]
    L = lambda x: (lambda: x)  # noqa
    out = []
    if updater in ('default', 'accumulate', 'nonnegative_accumulate',
                   'set', 'null', 'vmc_user'):
        for v in ints:
            out.append((L(v), [L(u) for u in ints]))
        for v in floats:
            out.append((L(v), [L(u) for u in floats]))
        for v in arrs_i:
            out.append((v, arrs_i))
        for v in arrs_f:
            out.append((v, arrs_f))
    if updater in ('default', 'accumulate', 'set', 'null', 'vmc_user'):
        # list values (accumulate concatenates; each update of a batch is
        # one call of the updater, never one merged list)
        out.append((lambda: ['x'], [lambda: ['y', 'z'], lambda: [],
                                    lambda: ['w']]))
    if updater in ('set', 'null', 'vmc_user'):
        out.append((L('s'), [L('t'), L(None) if updater == 'set' else L('')]))
        out.append((L({'a': 1}), [L({'b': 2}), L({})]))
    if updater == 'merge':
        dicts = [{'a': {'b': {'x': 1}}}, {'a': {'b': {'y': 2}}},
                 {}, {'a': 1}, {'a': 1, 'b': 2}, {'a': {'b': 1}},
                 {'a': {'b': 1, 'c': 2}, 'b': 3}, {'c': {'a': 0}},
                 {'a': None}, {'b': {'a': {'c': 1}}}, {'a': {'b': None}}]
        for v in dicts:
            out.append((lambda v=v: copy.deepcopy(v),
                        [lambda u=u: copy.deepcopy(u) for u in dicts]))
    if updater == 'dict_value':
        vals = [{}, {'a': {'x': 1}}, {'a': {'x': 1}, 'b': {'y': 2}}]
        upds = [{}, {'_add': [{'key': 'c', 'state': {'z': 3}}]},
                {'_add': [{'key': 'c', 'state': {'z': 3}},
                          {'key': 'b', 'state': {'y': 9}}]},
                {'_delete': ['a']}, {'a': {'x': 5}}, {'a': {'w': 7}},
                {'_add': [{'key': 'c', 'state': {}}], 'a': {'x': 2}},
                {'b': {'y': 4}, '_delete': ['a']},
                # replace an entry: delete and add the same key in ONE
                # update (the keys are processed in the order given)
                {'_delete': ['a'], '_add': [{'key': 'a',
                                             'state': {'x': 9}}]},
                {'_add': [{'key': 'c', 'state': {'z': 1}}],
                 '_delete': ['c']}]
        for v in vals:
            ok = []
            for u in upds:
                try:
                    ref_dict_value(v, u)
                except KeyError:
                    continue
                ok.append(lambda u=u: copy.deepcopy(u))
            out.append((lambda v=v: copy.deepcopy(v), ok))
    return out


def unit_cases():
    """(declared via, declared unit, value, [updates in other units])."""
    out = []
    for how in ('_units', 'default'):
        out.append((how, units.um, 1.5 * units.um,
                    [2 * units.mm, 500 * units.nm, -0.25 * units.um,
                     0.0 * units.mm]))
        out.append((how, units.fg, 0 * units.fg,
                    [1 * units.pg, 0.5 * units.fg, 3 * units.ng]))
    # _units declared explicitly, the default written in ANOTHER compatible
    # unit: the declared units win
    out.append(('_units', units.um, 0.0015 * units.mm,
                [2 * units.mm, 500 * units.nm, 0.0 * units.um]))
    out.append(('_units', units.mg, 1 * units.g,
                [5 * units.mg, 1 * units.ug]))
    return out


# ------------------------------------------------------------------- shapes
SHAPES = [(('v',), 0), (('n', 'v'), 1), (('n', 'm', 'v'), 2),
          (('n', 'v'), 2)]


def leaf_schema(updater, default, unit_decl=None):
    sch = {'_default': default, '_emit': True}
    if updater not in ('default', 'override'):
        sch['_updater'] = updater
    if updater == 'override':
        sch['_updater'] = 'null'
    if unit_decl is not None:
        how, unit = unit_decl
        if how == '_units':
            sch['_units'] = unit
    return sch


def nest(path, leaf, n_sib):
    """Config / value tree with the variable at path and n_sib siblings.
    For the merge updater the first sibling is declared with the very same
    default object (a module-level constant reused in two schemas)."""
    d = leaf
    sib = {f'sib{i}': {'_default': 40 + i} for i in range(n_sib)}
    if n_sib and leaf.get('_updater') == 'merge':
        sib['sib0'] = {'_default': leaf['_default'], '_updater': 'merge'}
    for k in reversed(path):
        d = dict({k: d}, **sib)
        sib = {}
    return d


def get_path(tree, path):
    for k in path:
        tree = tree[k]
    return tree


def wrap_update(path, u):
    for k in reversed(path):
        u = {k: u}
    return u


def expected_set(ref, v, updates):
    """All fold results over the orders of the batch."""
    outs = []
    for perm in set(itertools.permutations(range(len(updates)))):
        cur = copy.deepcopy(v)
        for i in perm:
            cur = ref(cur, copy.deepcopy(updates[i]))
        outs.append(cur)
    return outs


# ------------------------------------------------------------------ routes
def via_store(updater, path, n_sib, v, updates, unit_decl, mode):
    if mode == 'mixed':
        return via_store_mixed(updater, path, n_sib, v, updates)
    if mode in ('mixed-last', 'mixed-last-multi'):
        return via_store_mixed_last(updater, path, n_sib, v, updates,
                                    mode == 'mixed-last-multi')
    leaf = leaf_schema(updater, v, unit_decl)
    store = Store(nest(path, leaf, n_sib))
    store.apply_defaults()
    before = probes.pure(store.get_value())
    sib_nodes = {p: store.get_path(p) for p in sibling_paths(path, n_sib)}
    given = [copy.deepcopy(u) for u in updates]
    if updater == 'override':
        given = [{'_value': u, '_updater': 'accumulate'} for u in given]
    kept = copy.deepcopy(given)
    if mode == 'multi':
        store.apply_update(wrap_update(path, {'_multi_update': given}))
    else:
        for g in given:
            store.apply_update(wrap_update(path, g))
    after = store.get_value()
    ok_identity = all(store.get_path(p) is n for p, n in sib_nodes.items())
    return before, after, given, kept, ok_identity


def via_store_mixed(updater, path, n_sib, v, updates):
    """First update carries {'_updater': 'set'}, the others are plain."""
    leaf = leaf_schema(updater, v, None)
    store = Store(nest(path, leaf, n_sib))
    store.apply_defaults()
    before = probes.pure(store.get_value())
    given = [{'_value': copy.deepcopy(updates[0]), '_updater': 'set'}] + [
        copy.deepcopy(u) for u in updates[1:]]
    kept = copy.deepcopy(given)
    for g in given:
        store.apply_update(wrap_update(path, g))
    return before, store.get_value(), given, kept, True


def via_store_mixed_last(updater, path, n_sib, v, updates, multi):
    """A 'set' variable; the LAST update of the batch names the updater
    accumulate, the earlier ones are plain (one by one, or as ONE
    _multi_update list)."""
    leaf = leaf_schema(updater, v, None)
    store = Store(nest(path, leaf, n_sib))
    store.apply_defaults()
    before = probes.pure(store.get_value())
    given = [copy.deepcopy(u) for u in updates[:-1]] + [
        {'_value': copy.deepcopy(updates[-1]), '_updater': 'accumulate'}]
    kept = copy.deepcopy(given)
    if multi:
        store.apply_update(wrap_update(path, {'_multi_update': given}))
    else:
        for g in given:
            store.apply_update(wrap_update(path, g))
    return before, store.get_value(), given, kept, True


def sibling_paths(path, n_sib):
    return [path[:-1][:0] + (f'sib{i}',) for i in range(n_sib)] if False \
        else [(f'sib{i}',) if len(path) == 1 else None
              for i in range(n_sib) if len(path) == 1]


def via_engine(updater, path, n_sib, v, updates, unit_decl, mode):
    leaf = leaf_schema(updater, v, unit_decl)
    schema_port = nest(path[1:], leaf, 0) if len(path) > 1 else None
    processes, topology = {}, {}
    given = [copy.deepcopy(u) for u in updates]
    if updater == 'override':
        given = [{'_value': u, '_updater': 'accumulate'} for u in given]
    store_path = path[:-1]
    var = path[-1]
    sibs = {f'sib{i}': {'_default': 40 + i, '_emit': True}
            for i in range(n_sib)}
    if mode == 'leafport':
        # one process per update whose PORT IS THE VARIABLE (wired with
        # the variable's full path; the update is the bare value)
        for i, g in enumerate(given):
            pid = f'p{i}'
            processes[pid] = {
                'cls': 'P', 'pid': pid, 'log_states': False,
                'schema': {'port': dict(leaf)},
                'update': {'port': {'$lit': g}}}
            topology[pid] = {'port': tuple(path)}
        if sibs:
            processes['sibdecl'] = {
                'cls': 'P', 'pid': 'sibdecl', 'log_states': False,
                'schema': {'port': dict(sibs)}, 'update': {}}
            topology['sibdecl'] = {'port': store_path}
    elif mode == 'ports':
        # one process, one port per update, all wired to the same store
        schema = {f'port{i}': dict({var: dict(leaf)}, **sibs)
                  for i in range(len(given))}
        processes['p0'] = {'cls': 'P', 'pid': 'p0', 'schema': schema,
                           'log_states': False,
                           'update': {f'port{i}': {var: {'$lit': g}}
                                      for i, g in enumerate(given)}}
        topology['p0'] = {f'port{i}': store_path
                          for i in range(len(given))}
    else:
        for i, g in enumerate(given):
            pid = f'p{i}'
            upd = {'$lit': {'_multi_update': given}} if mode == 'multi' \
                else {'$lit': g}
            processes[pid] = {
                'cls': 'P', 'pid': pid, 'log_states': False,
                'schema': {'port': dict({var: dict(leaf)}, **sibs)},
                'update': {'port': {var: upd}}}
            topology[pid] = {'port': store_path}
            if mode == 'multi':
                break
    spec = {'processes': processes, 'topology': topology,
            'script': [('update', 1)]}
    ex = worlds.execute(spec)
    if ex.error:
        raise ex.error[2]
    rows = worlds.history_rows(ex)
    before = rows[0][2]
    after = ex.engine.state.get_value()
    returned = [ev[5] for ev in ex.trace if ev[0] == 'return']
    return before, probes.pure(after), after, given, returned


def check_case(job, acc):
    updater, path, n_sib, vmk, umks, unit_decl, route, mode = job
    v = vmk()
    updates = [u() for u in umks]
    label = {'updater': updater, 'path': path, 'siblings': n_sib,
             'value': repr(v), 'updates': [repr(u) for u in updates],
             'route': route, 'mode': mode,
             'units': str(unit_decl[1]) + '/' + unit_decl[0]
             if unit_decl else None}
    V = lambda rule, fp, msg: acc.violate(  # noqa
        fw.violation(rule, fp, msg, label))
    refname = 'accumulate' if updater == 'override' else updater
    ref = REF[refname]
    want = expected_set(ref, v, updates)
    if mode == 'mixed':
        cur = copy.deepcopy(updates[0])
        for u in updates[1:]:
            cur = ref(cur, copy.deepcopy(u))
        want = [cur]
    if mode in ('mixed-last', 'mixed-last-multi'):
        # set, set, ..., then accumulate: the last plain value plus the
        # named update
        want = [REF['accumulate'](copy.deepcopy(updates[-2]),
                                  copy.deepcopy(updates[-1]))]
    if unit_decl is not None:
        want = [w.to(unit_decl[1]) for w in want]
    try:
        if route == 'store':
            before, after, given, kept, ident = via_store(
                updater, path, n_sib, v, updates, unit_decl, mode)
            got = get_path(after, path)
            if not all(same_tree(g, k) for g, k in zip(given, kept)):
                V('C08.input', 'update-object-modified',
                  f'{updater}: the update handed in was modified: '
                  f'{given} != {kept}')
        else:
            before, after, raw_after, given, returned = via_engine(
                updater, path, n_sib, v, updates, unit_decl, mode)
            got = get_path(raw_after, path)
    except Exception as e:  # noqa
        V('C08.crash', f'{updater}:{type(e).__name__}',
          f'{label}: unexpected {e!r}')
        return
    if not any(same(got, w) for w in want):
        kind = 'units' if unit_decl else 'value'
        V('C08.value', f'{updater}-{kind}-' + (
            'batch' if len(updates) > 1 else 'single'),
          f'{updater} on {v!r} with {updates!r} via {route}/{mode} left '
          f'{got!r}; expected one of {want[:3]!r}')
        return
    # siblings untouched
    b_flat = {p: x for p, x in flat(before).items()
              if p != tuple(path) and x != '<process>'}
    a_flat = {p: x for p, x in flat(probes.pure(after) if route == 'store'
                                    else after).items()
              if p != tuple(path) and x != '<process>'}
    a_flat = {p: x for p, x in a_flat.items()
              if p[:len(path)] != tuple(path)}
    b_flat = {p: x for p, x in b_flat.items()
              if p[:len(path)] != tuple(path)}
    if set(a_flat) != set(b_flat) or any(
            not same(a_flat[p], b_flat[p]) for p in b_flat):
        V('C08.frame', 'unmentioned-variable-changed',
          f'{updater}: other variables changed: before {b_flat} after '
          f'{a_flat}')


# ----------------------------------------------------------------------
# the _reduce update form: the value handed to the updater is a reduction
# over the store subtree named by 'from' (relative to the variable)

class ReduceProc(Process):
    """Returns its scripted updates, one per invocation."""
    defaults = {'schema': {}, 'updates': []}

    def ports_schema(self):
        return copy.deepcopy(self.parameters['schema'])

    def next_update(self, timestep, states):
        ups = self.parameters['updates']
        return ups.pop(0) if ups else {}


REDUCE_FROM = {
    'box': (('..', 'box'), [(), ('a',), ('b',), ('deep',), ('deep', 'c')]),
    'deep': (('..', 'box', 'deep'), [(), ('c',)]),
    'all': (('..',), [(), ('box',), ('box', 'a'), ('box', 'b'),
                      ('box', 'deep'), ('box', 'deep', 'c'), ('total',)]),
}


def reduce_case(vals, t0, tupd, init, frm, order, route, acc):
    # tupd 'set>accumulate': the variable declares set, the _reduce update
    # itself names the updater accumulate (and vice versa)
    tupd, _, named = tupd.partition('>')
    label = {'updater': f'reduce:{tupd}' + (f'>{named}' if named else ''),
             'vals': vals, 'total': t0,
             'initial': init, 'from': frm, 'order': order, 'route': route}
    V = lambda rule, fp, msg: acc.violate(  # noqa
        fw.violation(rule, fp, msg, label))
    a, b, c = vals
    leafs = lambda d, u='accumulate': {  # noqa
        '_default': d, '_updater': u, '_emit': True}
    config = {'box': {'a': leafs(a), 'b': leafs(b),
                      'deep': {'c': leafs(c)}},
              'total': leafs(t0, tupd)}
    visited = []

    def reducer(value, path, node):
        visited.append(tuple(path))
        if not node.inner and isinstance(node.value, (int, float)):
            return value + node.value
        return value

    red = {'total': {'_reduce': {'from': REDUCE_FROM[frm][0],
                                 'initial': init, 'reducer': reducer}}}
    if named:
        red['total']['_updater'] = named
    bump = {'box': {'a': 1, 'deep': {'c': 2}}}
    script = {'reduce': [red], 'bump-reduce': [bump, red],
              'reduce-bump': [red, bump]}[order]
    # reference
    cur = {'a': a, 'b': b, 'c': c, 'total': t0}
    for u in script:
        if u is bump:
            cur['a'] += 1
            cur['c'] += 2
        else:
            r = init + {'box': cur['a'] + cur['b'] + cur['c'],
                        'deep': cur['c'],
                        'all': cur['a'] + cur['b'] + cur['c']
                        + cur['total']}[frm]
            cur['total'] = r if (named or tupd) == 'set' \
                else cur['total'] + r
    want = {'box': {'a': cur['a'], 'b': cur['b'], 'deep': {'c': cur['c']}},
            'total': cur['total']}
    try:
        if route == 'store':
            store = Store(config)
            store.apply_defaults()
            for u in script:
                store.apply_update(u)
            got = probes.pure(store.get_value())
        else:
            from vivarium.core.engine import Engine
            proc = ReduceProc({'schema': {'w': config},
                               'updates': [{'w': u} for u in script]})
            eng = Engine(processes={'r': proc},
                         topology={'r': {'w': ('world',)}},
                         emitter={'type': 'null'}, display_info=False)
            eng.update(len(script) + 1)
            got = probes.pure(eng.state.get_value())['world']
    except Exception as e:  # noqa
        V('C08.crash', f'reduce:{type(e).__name__}',
          f'{label}: unexpected {e!r}')
        return
    if got != want:
        V('C08.value', f'reduce-{tupd}',
          f'_reduce from {REDUCE_FROM[frm][0]} (initial {init}) into a '
          f'{tupd} variable, script {order} via {route}: state {got}, '
          f'expected {want}')
        return
    if sorted(visited) != sorted(REDUCE_FROM[frm][1]):
        V('C08.value', 'reduce-visits',
          f'_reduce from {REDUCE_FROM[frm][0]}: the reducer was called on '
          f'{sorted(visited)}, expected once on each of '
          f'{sorted(REDUCE_FROM[frm][1])}')


def reduce_jobs():
    return list(itertools.product(
        itertools.product((0, 2.5), repeat=3), (0, 5),
        ('set', 'accumulate', 'set>accumulate', 'accumulate>set'),
        (0, 10), ('box', 'deep', 'all'),
        ('reduce', 'bump-reduce', 'reduce-bump'), ('store', 'engine')))


def same_tree(a, b):
    if isinstance(a, dict) and isinstance(b, dict):
        return set(a) == set(b) and all(same_tree(a[k], b[k]) for k in a)
    if isinstance(a, list) and isinstance(b, list):
        return len(a) == len(b) and all(
            same_tree(x, y) for x, y in zip(a, b))
    return same(a, b)


def flat(tree, path=()):
    out = {}
    if isinstance(tree, dict) and tree and not isinstance(tree, Quantity):
        for k, v in tree.items():
            out.update(flat(v, path + (k,)))
    else:
        out[path] = tree
    return out


def jobs(ctx):
    out = []
    updaters = ['default', 'accumulate', 'set', 'null', 'merge',
                'nonnegative_accumulate', 'dict_value', 'vmc_user',
                'override']
    for updater in updaters:
        dom = domain('accumulate' if updater == 'override' else updater)
        for (vmk, umks) in dom:
            # batches of size 1..3 (ordered lists of update makers)
            batches = [(u,) for u in umks]
            wide = umks if (updater in ('merge', 'dict_value')
                            or not ctx.quick) else umks[:3]
            batches += list(itertools.product(wide, repeat=2))
            batches += list(itertools.product(
                umks[:2] if ctx.quick else umks, repeat=3))
            if not ctx.quick and updater not in ('merge', 'dict_value'):
                batches += list(itertools.product(umks[:2], repeat=4))
            for bi, batch in enumerate(batches):
                if updater == 'dict_value' and len(batch) > 1:
                    # keep only batches that are legal in every order
                    # (deleting a key twice is outside the domain)
                    try:
                        expected_set(REF['dict_value'], vmk(),
                                     [u() for u in batch])
                    except (KeyError, AttributeError, TypeError):
                        continue
                # every shape for single updates; two shapes for batches
                shapes = SHAPES if len(batch) == 1 or (
                    not ctx.quick and len(batch) == 2) else SHAPES[1:3]
                for (path, n_sib) in shapes:
                    for route in ('store', 'engine'):
                        modes = ['seq']
                        if len(batch) > 1:
                            modes.append('multi')
                            if route == 'engine' and updater in (
                                    'default', 'accumulate', 'set',
                                    'nonnegative_accumulate', 'vmc_user'):
                                modes.append('ports')
                        if route == 'engine' and len(path) == 1:
                            continue
                        if route == 'store' and len(batch) > 1 and \
                                updater in ('default', 'accumulate',
                                            'nonnegative_accumulate',
                                            'vmc_user'):
                            modes.append('mixed')
                        if route == 'store' and len(batch) > 1 and \
                                updater == 'set' and isinstance(
                                    vmk(), (int, float)):
                            modes += ['mixed-last', 'mixed-last-multi']
                        if route == 'engine' and updater not in (
                                'merge', 'dict_value', 'override') and \
                                not isinstance(vmk(), dict):
                            modes.append('leafport')
                        for mode in modes:
                            if mode == 'ports' and isinstance(vmk(), dict):
                                # a dict-valued leaf update returned
                                # through two ports is merged key-wise by
                                # design (updates are structure-blind)
                                continue
                            out.append((updater, path, n_sib, vmk, batch,
                                        None, route, mode))
    for (how, unit, val, upds) in unit_cases():
        L = lambda x: (lambda: x)  # noqa
        for updater in ('default', 'accumulate', 'set',
                        'nonnegative_accumulate'):
            batches = [(L(u),) for u in upds] + [
                (L(a), L(b)) for a, b in itertools.product(
                    upds[:3] if ctx.quick else upds, repeat=2)]
            if not ctx.quick:
                batches += [(L(a), L(b), L(c)) for a, b, c in
                            itertools.product(upds[:3], repeat=3)]
            for batch in batches:
                for (path, n_sib) in SHAPES[1:3]:
                    for route in ('store', 'engine'):
                        out.append((updater, path, n_sib, L(val), batch,
                                    (how, unit), route, 'seq'))
    return out


def run_index(job, acc):
    if job[0] == 'reduce':
        for rj in reduce_jobs()[job[1]::job[2]]:
            acc.case(key=('reduce',) + rj, outcome=f'reduce:{rj[-1]}')
            reduce_case(*rj, acc)
        return
    lo, hi, quick = job

    class _C:
        pass
    c = _C()
    c.quick = quick
    all_jobs = _JOBS if _JOBS is not None else jobs(c)
    for j in all_jobs[lo:hi]:
        acc.case(key=(j[0], j[1], j[2], repr(j[3]()),
                      tuple(repr(u()) for u in j[4]),
                      str(j[5]), j[6], j[7]),
                 outcome=f'{j[0]}:{j[6]}:{j[7]}:batch={len(j[4])}')
        check_case(j, acc)
        if len(acc.samples) < 3 and len(j[4]) == 2 and j[0] == 'merge':
            acc.sample({'updater': j[0], 'path': j[1], 'value': repr(j[3]()),
                        'updates': [repr(u()) for u in j[4]],
                        'route': j[6], 'mode': j[7]})


_JOBS = None


def run(ctx):
    global _JOBS
    _JOBS = jobs(ctx)            # built before the fork (holds lambdas)
    n = len(_JOBS)
    step = 400
    idx = [(lo, min(lo + step, n), ctx.quick) for lo in range(0, n, step)]
    idx += [('reduce', k, 4) for k in range(4)]
    return ctx.map(run_index, idx, chunk=1)


def replay(case):
    class _C:
        quick = True
    acc = fw.Acc()
    if str(case['updater']).startswith('reduce:'):
        reduce_case(tuple(case['vals']), case['total'],
                    case['updater'].split(':', 1)[1], case['initial'],
                    case['from'], case['order'], case['route'], acc)
        return [v for exs in acc.viol_examples.values() for v in exs]
    for j in jobs(_C()):
        if (j[0] == case['updater'] and tuple(j[1]) == tuple(case['path'])
                and j[2] == case['siblings'] and j[6] == case['route']
                and j[7] == case['mode'] and repr(j[3]()) == case['value']
                and [repr(u()) for u in j[4]] == list(case['updates'])):
            check_case(j, acc)
            break
    return [v for exs in acc.viol_examples.values() for v in exs]


RULE += (
    ' Engine route also through LEAF ports (the port is the variable, the update is the bare value - falsy values included).')

RULE += (
    ' The _reduce update form: a reduction (sum of the leaves, with an initial value) over the subtree named by from - a sibling branch, a nested branch, or the parent that holds the variable itself - handed to a set / accumulate variable (also with the update itself naming the other updater), alone, after and before an ordinary update of the reduced leaves, through Store.apply_update and through a process in an Engine; the reducer is called exactly once on every node of the subtree.')

RULE += (
    ' The merge domain includes an update that sets a NESTED key holding a dictionary to None.')

RULE += (
    ' Modes mixed-last / mixed-last-multi: a set variable whose batch ends with an update that names the updater accumulate (one by one, and as ONE _multi_update list): the earlier updates still count.')
