"""C04 - processes started together see one committed snapshot; listing
order is moot (all permutations of insertion orders)."""
import copy
import itertools

import numpy as np

from vmc import framework as fw
from vmc import sched, worlds

ID = 'C04'
LEVEL = 'model_checking'
RULE = (
    'S-family composites of 2-3 processes and 0-3 steps of one dependency '
    'layer (plus two 2-step chains, and a layer with a structural step '
    'observed through glob ports) with commuting updates (token collect, accumulate, set on '
    'pairwise distinct variables) x EVERY permutation of the insertion '
    'order of the processes dict and the steps dict x {port order, '
    'initial-state key order} normal/reversed x timestep assignments x '
    'scripts D^{<=1}.F. Oracle: no apply between same-instant invocations, '
    'identical whole-hierarchy snapshots at one instant, no due update '
    'unapplied at an invocation, step phase complete, equal snapshots per '
    'step layer, and the emitted rows are identical across all '
    'permutations of one world. A case is one (world, permutation). '
    'Gated worlds: one process is quiet at its first poll(s) and starts '
    'later (due times from the trace). Migrate worlds: a compartment '
    'whose sensor reads its environment through ".." is moved by a step; '
    'the view must be the committed state of where it lives.')
ASSUMPTIONS = [
    'updates commute: token variables are compared as multisets',
    'worlds with _move/_delete aimed at a process due in the same batch '
    'are excluded (premise "updates commute" fails there; see C10)',
]
BOUNDS = {'quick': {'N': 3, 'S': 2}, 'thorough': {'N': 3, 'S': 3}}


def ordered(d, order, reverse_inner=False):
    return {k: d[k] for k in order}


def world(tss, n_steps, script, perm_p, perm_s, rev_ports, rev_state,
          gate=None):
    """gate: None | (process index, number of initial polls at which its
    update condition is false): the process is quiet first and starts
    later, at an instant decided by the other processes."""
    procs = {}
    topo_p = {}
    for i, ts in enumerate(tss):
        pid = f'p{i}'
        spec = sched.probe_spec(pid, ts, 'always', log_snapshot=True)
        if gate is not None and gate[0] == i:
            spec['cond'] = {'$n': {k: False for k in range(gate[1])},
                            '$else': True}
        spec['schema']['priv']['last'] = {
            '_default': None, '_updater': 'set', '_emit': True}
        spec['update']['priv']['last'] = '$tokval'
        # a numpy array under the default (accumulate) updater: every
        # process adds [1, 1] to the shared array and adds THE ARRAY OBJECT
        # IT WAS SHOWN to a private one (the update carries the viewed
        # object itself, as real processes do)
        spec['schema']['shared']['arr'] = {
            '_default': np.array([0, 0]), '_emit': True}
        spec['schema']['priv']['seen'] = {
            '_default': np.array([0, 0]), '_emit': True}
        spec['update']['shared']['arr'] = {'$lit': np.array([1, 1])}
        spec['update']['priv']['seen'] = {'$stateref': ('shared', 'arr')}
        # a third port, wired with a DICTIONARY, reaches a variable that
        # the tuple-wired port 'shared' updates too: both contributions
        # count, whatever order the ports are listed in
        spec['schema']['shared']['num2'] = dict(sched.NUM)
        spec['schema']['bonus'] = {'num2': dict(sched.NUM)}
        spec['update']['shared']['num2'] = 1
        spec['update']['bonus'] = {'num2': 1}
        # a variable whose initial-state value differs from its default
        spec['schema']['shared']['base'] = dict(sched.NUM)
        spec['update']['shared']['base'] = 1
        ports = {'priv': (f's{i}',), 'shared': ('shared',),
                 'bonus': {'num2': ('shared', 'num2')}}
        if rev_ports:
            ports = dict(reversed(list(ports.items())))
            spec['schema'] = dict(reversed(list(spec['schema'].items())))
            spec['update'] = dict(reversed(list(spec['update'].items())))
        procs[pid] = spec
        topo_p[pid] = ports
    steps, flow, topo_s = {}, {}, {}
    layout = n_steps
    if layout == 'chains':
        # two independent chains st0 -> st2 and st1 -> st3: generations
        # {st0, st1} and {st2, st3}
        step_ids, deps = [0, 1, 2, 3], {2: [0], 3: [1]}
    elif layout == 'chains2':
        # same, but named so that a chain's tail sorts before the other
        # chain's head: st0 -> st1 and st2 -> st3
        step_ids, deps = [0, 1, 2, 3], {1: [0], 3: [2]}
    elif layout == 'xchain':
        # st0 -> st1 -> {st2, st3}; st3 is placed in a compartment and
        # reaches its dependency through '..' (see the end of world())
        step_ids, deps = [0, 1, 2, 3], {1: [0], 2: [1], 3: [1]}
    elif layout == 'recruit':
        # st0 adds a child under 'kids' in its 2nd run; st1 is ordinary
        step_ids, deps = [0, 1], {}
    else:
        step_ids, deps = list(range(layout)), {}
    for k in step_ids:
        sid = f'st{k}'
        steps[sid] = {
            'cls': 'S', 'pid': sid, 'log_snapshot': True,
            'schema': {'shared': {'num': dict(sched.NUM)},
                       'derived': {f'copy{j}': {
                           '_default': -1, '_updater': 'set',
                           '_emit': True} for j in step_ids}},
            'update': {'derived': {f'copy{k}': {
                '$state': ('shared', 'num')}}}}
        flow[sid] = [(f'st{d}',) for d in deps.get(k, [])]
        ports = {'shared': ('shared',), 'derived': ('derived',)}
        if layout == 'recruit' and k == 0:
            steps[sid]['schema']['kids'] = {'*': {'v': {
                '_default': 0, '_emit': True}}}
            steps[sid]['update'] = {'$n': {1: {
                'derived': {'copy0': {'$state': ('shared', 'num')}},
                'kids': {'_add': [{'key': 'k1', 'state': {'v': 5}}]}}},
                '$else': {'derived': {'copy0': {
                    '$state': ('shared', 'num')}}}}
            ports['kids'] = ('kids',)
        if rev_ports:
            ports = dict(reversed(list(ports.items())))
        topo_s[sid] = ports
    if layout == 'recruit':
        for pid, spec in procs.items():
            spec['schema']['kids'] = {'*': {'v': {
                '_default': 0, '_emit': True}}}
            topo_p[pid] = dict(topo_p[pid], kids=('kids',))
    perm_s = [step_ids[i] for i in perm_s]
    p_order = [f'p{i}' for i in perm_p]
    s_order = [f'st{k}' for k in perm_s]
    processes = {k: procs[k] for k in p_order}
    steps = {k: steps[k] for k in s_order}
    flow = {k: flow[k] for k in s_order}
    names = p_order + s_order if not rev_state else s_order + p_order
    topology = {}
    for k in names:
        topology[k] = topo_p.get(k) or topo_s.get(k)
    # the initial state also holds keys that nothing declares (ignored by
    # the engine), listed first; 'base' starts away from its default
    state = {'meta': {'x': 1},
             'shared': {'note': 'n', 'num': 0, 'num2': 0, 'tok': (),
                        'arr': np.array([0, 0]), 'base': 7}}
    if layout == 'recruit':
        state['kids'] = {'k0': {'v': 1}}
    for i in range(len(tss)):
        state[f's{i}'] = {'num': 0}
    if rev_state:
        state = {k: (dict(reversed(list(v.items())))
                     if isinstance(v, dict) else v)
                 for k, v in reversed(list(state.items()))}
    if layout == 'xchain':
        # st3 lives in compartment c and names its dependency with '..'
        def nest3(d, value):
            return {('c' if k == 'st3' else k): ({'st3': value}
                                                if k == 'st3' else v)
                    for k, v in d.items()}
        steps = nest3(steps, steps['st3'])
        flow = nest3(flow, [('..', 'st1')])
        topology = nest3(topology, {
            port: ('..',) + path
            for port, path in topology['st3'].items()})
    return {'processes': processes, 'steps': steps, 'flow': flow,
            'topology': topology, 'state': state, 'script': list(script),
            'family': 'O', 'procs': [(ts, 'always') for ts in tss],
            'perm': (tuple(perm_p), tuple(perm_s), rev_ports, rev_state),
            'tss': tuple(tss), 'n_steps': n_steps, 'gate': gate,
            'step_ids': step_ids,
            'generation': {f'st{k}': _depth(k, deps) for k in step_ids}}


def _depth(k, deps):
    return 1 + max(_depth(d, deps) for d in deps[k]) if deps.get(k) else 0


def canon_rows(ex):
    rows = []
    for (T, data, snap) in worlds.history_rows(ex):
        def norm(v):
            if isinstance(v, dict):
                return {k: norm(x) for k, x in sorted(v.items())}
            if isinstance(v, tuple) and v and isinstance(v[0], tuple):
                return sorted(v)
            return v
        rows.append((T, fw.jdump(norm(data))))
    return rows


def check_one(spec, ex):
    out = []
    V = lambda rule, fp, msg: out.append(  # noqa
        fw.violation(rule, fp, msg, spec))
    if ex.error:
        V('C04.crash', sched.crash_fp(ex), f'unexpected {ex.error[2]!r}')
        return out
    t0 = 0
    ref = sched.ideal_timeline(spec['procs'], spec['script'], t0)
    due = sorted(a for seq in ref.values() for a, _ in seq)
    if spec.get('gate') is not None:
        # a process that is quiet first starts at an instant the others
        # decide: an update is due when the interval it was computed for
        # ends (start + timestep argument)
        # (start = the time up to which the process had been simulated,
        # which lags behind the clock after a non-forcing call)
        due, start = [], {}
        for ev in ex.trace:
            if ev[0] == 'poll':
                start[ev[1]] = ev[7] if ev[7] is not None else ev[4]
            elif ev[0] == 'invoke' and not ev[7]:
                due.append(start.get(ev[1], ev[4]) + ev[5])
        due.sort()
    # walk the trace: groups of process invocations at one instant
    last_proc = None       # (time, snapshot json, idx)
    applied = 0
    for idx, ev in enumerate(ex.trace):
        k = ev[0]
        if k == 'apply':
            applied += 1
            if last_proc is not None and last_proc[3]:
                last_proc = last_proc[:3] + (False,)
            last_apply_idx = idx
        elif k == 'clock':
            last_proc = None
        elif k == 'snap':
            _, uid, pid, n, t, snap = ev[:6]
            is_step = pid.startswith('st')
            sj = fw.jdump(_norm_snapshot(snap))
            if is_step:
                continue
            # (ii) nothing due is still unapplied, steps are done
            n_due = sum(1 for a in due if a <= t)
            if snap['shared']['num'] != n_due:
                V('C04.committed', 'due-update-unapplied-at-invocation'
                  if snap['shared']['num'] < n_due else
                  'update-applied-before-it-was-due',
                  f'{pid} invoked at t={t} sees shared.num='
                  f'{snap["shared"]["num"]} but {n_due} updates were due')
                return out
            if snap['shared'].get('num2') != 2 * snap['shared']['num']:
                V('C04.committed', 'contribution-of-one-port-lost',
                  f'{pid} invoked at t={t}: shared.num2='
                  f'{snap["shared"].get("num2")} but shared.num='
                  f'{snap["shared"]["num"]}: every update adds 1 to num '
                  f'and, through two ports, 2 to num2')
                return out
            for kk in spec['step_ids']:
                if snap['derived'][f'copy{kk}'] != snap['shared']['num']:
                    V('C04.committed', 'step-phase-incomplete-at-invocation',
                      f'{pid} invoked at t={t}: derived.copy{kk}='
                      f'{snap["derived"][f"copy{kk}"]} shared.num='
                      f'{snap["shared"]["num"]}')
                    return out
            if 'kids' in snap:
                view = _view_of(ex.trace, idx)
                if view is not None and sorted(view.get('kids', {})) != \
                        sorted(snap['kids']):
                    V('C04.committed', 'stale-view-of-committed-state',
                      f'{pid} invoked at t={t} is shown kids '
                      f'{sorted(view.get("kids", {}))} but the committed '
                      f'state holds {sorted(snap["kids"])}')
                    return out
            if last_proc is not None and last_proc[0] == t:
                if not last_proc[3]:
                    V('C04.snapshot', 'apply-between-same-instant-'
                      'invocations',
                      f'an update was applied between two invocations at '
                      f't={t} ({last_proc[4]} then {pid})')
                    return out
                if last_proc[1] != sj:
                    V('C04.snapshot', 'different-snapshots-at-one-instant',
                      f'{last_proc[4]} and {pid}, both invoked at t={t}, '
                      f'see different hierarchy states')
                    return out
            last_proc = (t, sj, idx, True, pid)
    # the array a process was shown stays what it was: its private 'seen'
    # holds the sum of the arrays logged at its invocations
    inv_seen = {}
    for ev in ex.trace:
        if ev[0] == 'invoke' and not ev[7] and ev[2].startswith('p'):
            inv_seen.setdefault(ev[2], {})[ev[3]] = np.array(
                ev[6]['shared']['arr'])
    applied = {}
    for ev in ex.trace:
        if ev[0] == 'apply':
            applied.setdefault(ev[1], ev[2])
    rows = worlds.history_rows(ex)
    if rows:
        T, data, snap = rows[-1]
        for pid, by_n in inv_seen.items():
            i = int(pid[1:])
            want = np.array([0, 0])
            for n, arr in by_n.items():
                if applied.get((pid, n)) is not None and \
                        applied[(pid, n)] <= T:
                    want = want + arr
            got = np.array(data.get(f's{i}', {}).get('seen'))
            if got.shape != want.shape or not (got == want).all():
                V('C04.snapshot', 'view-changed-after-it-was-handed-out',
                  f'{pid}: private seen = {got.tolist()}, but the arrays it '
                  f'was shown at its invocations sum to {want.tolist()} '
                  f'(a later update modified the object in its view)')
                return out
    # (iii) steps of one generation see identical snapshots in a phase
    phase = {}
    for ev in ex.trace + [('end',)]:
        if ev[0] == 'snap' and ev[2].startswith('st'):
            phase.setdefault(spec['generation'][ev[2]], []).append(
                (ev[2], fw.jdump(_norm_snapshot(ev[5]))))
        elif ev[0] in ('invoke', 'return', 'cond'):
            continue
        else:
            for g, members in phase.items():
                if len({sj for _, sj in members}) > 1:
                    V('C04.snapshot', 'layer-steps-see-different-state',
                      f'steps {[m for m, _ in members]} of dependency '
                      f'layer {g} saw different hierarchy states')
                    return out
            phase = {}
    return out


def _view_of(trace, snap_idx):
    """states argument of the invoke event that follows a snap event."""
    for ev in trace[snap_idx + 1:snap_idx + 3]:
        if ev[0] == 'invoke':
            return ev[6]
    return None


def _norm_snapshot(snap):
    def norm(v):
        if isinstance(v, dict):
            return {k: norm(x) for k, x in sorted(v.items())}
        if isinstance(v, tuple) and v and isinstance(v[0], tuple):
            return sorted(v)
        return v
    return norm(snap)


def perms(n_p, n_s):
    n_s = {'chains': 4, 'chains2': 4, 'xchain': 4, 'recruit': 2}.get(n_s, n_s)
    for pp in itertools.permutations(range(n_p)):
        for ps in itertools.permutations(range(n_s)):
            for rev_ports in (False, True):
                for rev_state in (False, True):
                    yield pp, ps, rev_ports, rev_state


def run_job(job, acc):
    if job[0] == 'migrate':
        run_migrate(job, acc)
        return
    if job[0] == 'kill':
        run_kill_perm(job, acc)
        return
    if job[0] == 'swap':
        run_swap(job, acc)
        return
    tss, n_steps, script = job[:3]
    gate = job[3] if len(job) > 3 else None
    base = None
    for perm in perms(len(tss), n_steps):
        spec = world(tss, n_steps, script, *perm, gate=gate)
        ex = worlds.execute(spec, guard_factory=sched.lasso_guard)
        p = sched.Parsed(ex)
        sched.record_states(acc, p)
        viols = check_one(spec, ex)
        rows = canon_rows(ex)
        if base is None:
            base = (perm, rows)
        elif rows != base[1] and not viols:
            diff = next((a, b) for a, b in itertools.zip_longest(
                base[1], rows) if a != b)
            viols.append(fw.violation(
                'C04.permutation', 'trajectory-depends-on-listing-order',
                f'permutation {perm} gives rows that differ from '
                f'permutation {base[0]}: first difference {diff}', spec))
        acc.case(key=(job, perm), outcome=f'O:rows={len(rows)}')
        acc.validated += 1
        for v in viols:
            acc.violate(v)
    if len(acc.samples) < 2:
        acc.sample({'tss': tss, 'steps': n_steps, 'script': script,
                    'permutations': sum(1 for _ in perms(len(tss),
                                                         n_steps))})


# ----------------------------------------------------------------------
# a compartment is deleted in the batch in which its process's update to
# a variable OUTSIDE it falls due: deletion and contribution commute, so
# everything outside the compartment is the same for every listing order

def kill_jobs(ctx):
    out = []
    for vts in (0.5, 1, 2, 3):
        for kill_at in (0, 1, 2):
            out.append(('kill', vts, kill_at))
    return out


def run_kill_perm(job, acc):
    _, vts, kill_at = job
    case = {'family': 'kill', 'job': job}
    names = ('killer', 'c', 'p1')
    victim = sched.probe_spec('v', vts, 'always')
    other = sched.probe_spec('p1', 1, 'always')
    killer = {'cls': 'P', 'pid': 'killer', 'ts': 1, 'log_states': False,
              'schema': {'root': {}},
              'update': {'$n': {kill_at: {'root': {'_delete': ['c']}}},
                         '$else': {}}}
    parts = {'c': {'v': victim}, 'p1': other, 'killer': killer}
    topo = {'c': {'v': {'priv': ('sv',), 'shared': ('..', 'shared')}},
            'p1': {'priv': ('s1',), 'shared': ('shared',)},
            'killer': {'root': ()}}
    base = None
    for order in itertools.permutations(names):
        spec = {'processes': {k: copy.deepcopy(parts[k]) for k in order},
                'topology': {k: topo[k] for k in order},
                'script': [('update', 4)]}
        ex = worlds.execute(spec, guard_factory=sched.lasso_guard)
        acc.case(key=(job, order), outcome='kill')
        acc.validated += 1
        if ex.error:
            acc.violate(fw.violation(
                'C04.crash', 'kill:' + sched.crash_fp(ex),
                f'{job} order {order}: unexpected {ex.error[2]!r}', case))
            return
        rows = []
        for (T, data, snap) in worlds.history_rows(ex):
            outside = {k: v for k, v in data.items() if k != 'c'}
            rows.append((T, fw.jdump(_norm_snapshot(outside))))
        if base is None:
            base = (order, rows)
        elif rows != base[1]:
            diff = next((a, b) for a, b in itertools.zip_longest(
                base[1], rows) if a != b)
            acc.violate(fw.violation(
                'C04.permutation', 'deletion-and-outside-update-do-not-'
                'commute',
                f'victim timestep {vts}, deletion issued at t={kill_at}: '
                f'listed as {order} the state outside the deleted '
                f'compartment differs from listing {base[0]}: {diff}',
                case))
            return


# ----------------------------------------------------------------------
# two steps of ONE layer that swap two variables keep sharing one snapshot
# in the daughters of a division that copies the mother's steps and flow

def swap_jobs(ctx):
    return [('swap', order, phase, via)
            for order in (('swap_a', 'swap_b'), ('swap_b', 'swap_a'))
            for phase in (1, 2)
            for via in ('divide', 'generate', 'none')]


def run_swap(job, acc):
    _, order, phase, via = job
    case = {'family': 'swap', 'job': job}
    acc.case(key=job, outcome='swap')
    acc.validated += 1
    setv = lambda d: {'_default': d, '_updater': 'set', '_emit': True}  # noqa
    defs = {
        'swap_a': {'cls': 'S', 'pid': 'swap_a', 'log_states': False,
                   'schema': {'in': {'a': setv('A'), 'b': setv('B')}},
                   'update': {'in': {'a': {'$state': ('in', 'b')}}}},
        'swap_b': {'cls': 'S', 'pid': 'swap_b', 'log_states': False,
                   'schema': {'in': {'a': setv('A'), 'b': setv('B')}},
                   'update': {'in': {'b': {'$state': ('in', 'a')}}}}}
    inner_steps = {k: defs[k] for k in order}
    inner_flow = {k: [] for k in order}
    inner_topo = {k: {'in': ()} for k in order}
    if via == 'divide':
        upd = {'agents': {'_divide': {'mother': 'm', 'daughters': [
            {'key': 'm0'}, {'key': 'm1'}]}}}
    elif via == 'generate':
        upd = {'agents': {'_generate': [{
            'key': 'g', 'processes': {},
            'steps': {'$probes': copy.deepcopy(inner_steps)},
            'flow': copy.deepcopy(inner_flow),
            'topology': copy.deepcopy(inner_topo),
            'initial_state': {}}]}}
    else:
        upd = {}
    spec = {
        'processes': {'ticker': {
            'cls': 'P', 'pid': 'ticker', 'ts': 1, 'log_states': False,
            'schema': {'tk': {'n': dict(sched.NUM)}},
            'update': {'tk': {'n': 1}}}},
        'steps': {'agents': {'m': inner_steps},
                  'div': {'cls': 'S', 'pid': 'div', 'log_states': False,
                          'schema': {'agents': {}},
                          'update': {'$n': {phase: upd}, '$else': {}}}},
        'flow': {'agents': {'m': inner_flow}, 'div': []},
        'topology': {'ticker': {'tk': ('tks',)},
                     'agents': {'m': inner_topo},
                     'div': {'agents': ('agents',)}},
        'script': [('update', 5)]}
    ex = worlds.execute(spec)
    if ex.error:
        acc.violate(fw.violation(
            'C04.crash', 'swap:' + sched.crash_fp(ex),
            f'{job}: unexpected {ex.error[2]!r}', case))
        return
    seen_agents = set()
    for (T, data, snap) in worlds.history_rows(ex):
        for name, node in (snap.get('agents') or {}).items():
            seen_agents.add(name)
            if not isinstance(node, dict) or 'a' not in node:
                continue
            if {node['a'], node['b']} != {'A', 'B'}:
                acc.violate(fw.violation(
                    'C04.snapshot', 'layer-steps-see-different-state',
                    f'{job}: at t={T} agent {name} holds (a, b) = '
                    f'({node["a"]}, {node["b"]}): the two swapping steps '
                    f'of one layer did not read the same state', case))
                return
    want = {'divide': {'m', 'm0', 'm1'}, 'generate': {'m', 'g'},
            'none': {'m'}}[via]
    if seen_agents != want:
        acc.violate(fw.violation(
            'C04.snapshot', 'swap-world-vacuous',
            f'{job}: agents seen {sorted(seen_agents)}', case))


# ----------------------------------------------------------------------
# a compartment migrates: its process reads the environment through '..'

def migrate_world(tick, issuer, ts_sensor, order):
    leaf = lambda d: {'_default': d, '_emit': True}  # noqa

    def sensor(pid):
        return {'cls': 'P', 'pid': pid, 'ts': ts_sensor,
                'log_snapshot': True,
                'schema': {'env': {'nutrient': leaf(0)},
                           'own': {'seen': {'_default': -1,
                                            '_updater': 'set',
                                            '_emit': True}}},
                'update': {'own': {'seen': {'$state': ('env',
                                                       'nutrient')}}}}
    n = tick if issuer == 'P' else tick + 1
    mover = {'cls': issuer, 'pid': 'mover', 'ts': 1, 'log_states': False,
             'schema': {'A': {}, 'B': {}},
             'update': {'$n': {n: {'A': {'_move': [{
                 'source': ('c1',), 'target': 'B'}]}}}, '$else': {}}}
    feeder = {'cls': 'P', 'pid': 'feeder', 'ts': 1, 'log_states': False,
              'schema': {'a': {'nutrient': leaf(0)},
                         'b': {'nutrient': leaf(0)}},
              'update': {'a': {'nutrient': 1}, 'b': {'nutrient': 10}}}
    parts = {
        'feeder': (feeder, {'a': ('envA',), 'b': ('envB',)}),
        'cellA': ({'c1': {'sensor': sensor('s1')}},
                  {'c1': {'sensor': {'env': ('..', '..'), 'own': ()}}}),
        'cellB': ({'c2': {'sensor': sensor('s2')}},
                  {'c2': {'sensor': {'env': ('..', '..'), 'own': ()}}}),
        'mover': (mover, {'A': ('envA', 'cells'), 'B': ('envB', 'cells')}),
    }
    processes, topology, steps, flow = {}, {}, {}, {}

    def put(tree, path, value):
        for k in path[:-1]:
            tree = tree.setdefault(k, {})
        tree[path[-1]] = value
    for name in order:
        spec, topo = parts[name]
        if name == 'cellA':
            put(processes, ('envA', 'cells'), dict(
                processes.get('envA', {}).get('cells', {}), **spec))
            put(topology, ('envA', 'cells'), dict(
                topology.get('envA', {}).get('cells', {}), **topo))
        elif name == 'cellB':
            put(processes, ('envB', 'cells'), dict(
                processes.get('envB', {}).get('cells', {}), **spec))
            put(topology, ('envB', 'cells'), dict(
                topology.get('envB', {}).get('cells', {}), **topo))
        elif name == 'mover' and issuer == 'S':
            steps['mover'], flow['mover'] = spec, []
            topology['mover'] = topo
        else:
            processes[name] = spec
            topology[name] = topo
    return {'processes': processes, 'steps': steps, 'flow': flow,
            'topology': topology,
            'state': {'envA': {'nutrient': 5}, 'envB': {'nutrient': 50}},
            'script': [('update', 4)], 'family': 'migrate',
            'job': ('migrate', tick, issuer, ts_sensor, tuple(order))}


def migrate_jobs(ctx):
    out = []
    names = ('feeder', 'cellA', 'cellB', 'mover')
    orders = list(itertools.permutations(names))
    # the mover is a step and the sensor is idle when it is moved (a move
    # of a process that has an update due or in flight is K2, see C10)
    for tick in (0, 1, 2):
        for ts in (1, 2):
            if (tick + 1) % ts:
                continue
            for order in (orders[::2] if ctx.quick else orders):
                out.append(('migrate', tick, 'S', ts, order))
    return out


def run_migrate(job, acc):
    _, tick, issuer, ts, order = job
    spec = migrate_world(tick, issuer, ts, order)
    ex = worlds.execute(spec)
    V = lambda rule, fp, msg: acc.violate(  # noqa
        fw.violation(rule, fp, msg, spec))
    acc.case(key=job, outcome='migrate')
    acc.validated += 1
    if ex.error:
        V('C04.crash', f'migrate:{type(ex.error[2]).__name__}',
          f'{job}: unexpected {ex.error[2]!r}')
        return
    moved = 0
    snap = where = None
    for ev in ex.trace:
        if ev[0] == 'snap' and ev[2] in ('s1', 's2'):
            snap, where = ev[5], ev[6]
        elif ev[0] == 'invoke' and ev[2] in ('s1', 's2'):
            env = where[0]
            moved += ev[2] == 's1' and env == 'envB'
            got = ev[6]['env']['nutrient']
            want = snap[env]['nutrient']
            if got != want:
                V('C04.committed', 'stale-view-of-committed-state:'
                  'after-move',
                  f'{job}: {ev[2]} lives in {env} at t={ev[4]} and is '
                  f'shown nutrient={got}, the committed state of {env} '
                  f'holds {want}')
                return
    if not moved:
        V('C04.committed', 'migrate-world-vacuous',
          f'{job}: the moved sensor was never invoked in envB')


def jobs(ctx):
    out = []
    ts_menu = [1, 2, 3, 0.75]
    scripts = sched.scripts(1)
    if ctx.quick:
        scripts = [[('update', 3.25)], [('run_for', 1.5, False),
                                        ('update', 2)],
                   [('run_for', 2.5, True), ('run_for', 1.5, True)]]
    for n in (2, 3):
        combos = list(itertools.product(ts_menu, repeat=n))
        for tss in combos:
            for n_steps in ((0, 1, 2) if ctx.quick else (0, 1, 2, 3)):
                for sc in scripts:
                    out.append((tss, n_steps, sc))
        # layered / structural step layouts on a reduced grid
        for tss in combos[::5] if ctx.quick else combos:
            if n == 3 and ctx.quick:
                continue
            for layout in ('chains', 'chains2', 'recruit', 'xchain'):
                for sc in scripts[:2] if ctx.quick else scripts:
                    out.append((tss, layout, sc))
    # one process is quiet at its first poll(s) and starts later
    for tss in itertools.product(ts_menu, repeat=2):
        for gate in ((0, 1), (1, 1), (0, 2)):
            for n_steps in (0, 1):
                for sc in scripts[:2] if ctx.quick else scripts:
                    out.append((tss, n_steps, sc, gate))
    out += migrate_jobs(ctx)
    out += kill_jobs(ctx)
    out += swap_jobs(ctx)
    return out


def run(ctx):
    return ctx.map(run_job, jobs(ctx), chunk=1)


def replay(case):
    acc = fw.Acc()
    if case.get('family') == 'swap':
        j = case['job']
        run_swap((j[0], tuple(j[1]), j[2], j[3]), acc)
    elif case.get('family') == 'kill':
        run_kill_perm(tuple(case['job']), acc)
    elif case.get('family') == 'migrate':
        run_migrate(tuple(case['job']), acc)
    else:
        gate = case.get('gate')
        run_job((case['tss'], case['n_steps'], case['script'],
                 tuple(gate) if gate else None), acc)
    return [v for exs in acc.viol_examples.values() for v in exs]


RULE += (
    ' Every process also reaches one variable through a tuple-wired and a dictionary-wired port (both contributions must count in any port order).')

RULE += (
    ' The initial state holds a variable away from its default and keys that nothing declares (listed first, or last when the state order is reversed - inner dictionaries are reversed too). Layout xchain: st0 -> st1 -> {st2, st3} with st3 inside a compartment, naming its dependency through "..": st2 and st3 are one layer.')
