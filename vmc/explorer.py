"""Explorer D: deviation-bounded stateless exploration of poll answers.

A choice point is one poll of one probe.  ``run(prefix)`` replays the
prefix (an out-of-range or unconsumed choice is a harness error) and then
takes choice 0 (the default answer) at every later point.  ``explore``
enumerates every execution with at most ``bound`` non-default answers.
"""


class HarnessError(Exception):
    pass


class Oracle:
    def __init__(self, prefix=(), menu_filter=None):
        self.prefix = list(prefix)
        self.points = []          # (key, menu, chosen index)
        self.menu_filter = menu_filter

    def choose(self, key, menu, probe=None):
        menu = list(menu)
        if self.menu_filter is not None:
            menu = self.menu_filter(key, menu, probe) or menu[:1]
        i = len(self.points)
        c = self.prefix[i] if i < len(self.prefix) else 0
        if c >= len(menu):
            raise HarnessError(
                f'choice {c} out of range at point {i} {key} menu {menu}')
        self.points.append((key, menu, c))
        return menu[c]

    @property
    def choices(self):
        return [c for _, _, c in self.points]

    def check_consumed(self):
        if len(self.points) < len(self.prefix):
            raise HarnessError(
                f'prefix {self.prefix} not consumed: only '
                f'{len(self.points)} choice points')


def explore(run, bound, prefix=(), on_execution=None, limit=None,
            expand_root=True):
    """Depth-first enumeration of all executions with <= bound deviations.

    ``run(prefix)`` must return the Oracle used for the execution (after
    the execution finished).  Returns the number of executions.
    """
    count = 0
    stack = [list(prefix)]
    while stack:
        pre = stack.pop()
        oracle = run(pre)
        oracle.check_consumed()
        count += 1
        if limit is not None and count >= limit:
            raise HarnessError('execution limit hit')
        choices = oracle.choices
        base_dev = sum(1 for c in choices[:len(pre)] if c)
        dev = base_dev
        # deviations after the prefix are all default (0)
        if dev >= bound:
            continue
        if not expand_root and len(pre) == len(prefix):
            continue
        for i in range(len(pre), len(oracle.points)):
            menu = oracle.points[i][1]
            for alt in range(1, len(menu)):
                stack.append(choices[:i] + [alt])
    return count
