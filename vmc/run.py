"""Runner: ``python -m vmc.run <ID> [--tier quick|thorough] [--replay PATH]``.

Exit codes: 0 property held on everything explored (known findings are
printed as KNOWN-FINDING lines), 1 at least one violation not listed in
known_findings.json (one ``VIOLATION property=<ID> replay=<path>`` line per
violation class), 2 harness error.
"""
import argparse
import importlib
import json
import os
import sys
import time
import traceback
import warnings

HERE = os.path.dirname(os.path.abspath(__file__))
VERIF = os.path.dirname(HERE)


def _reexec_with_hashseed(seed):
    want = str(seed % 4294967295)
    if os.environ.get('PYTHONHASHSEED') != want:
        env = dict(os.environ)
        env['PYTHONHASHSEED'] = want
        env.setdefault('PYTHONWARNINGS', 'ignore')
        env['PYTHONPATH'] = VERIF + (
            os.pathsep + env['PYTHONPATH'] if env.get('PYTHONPATH') else '')
        os.execve(sys.executable,
                  [sys.executable, '-m', 'vmc.run'] + sys.argv[1:], env)


def load(prop):
    return importlib.import_module('vmc.props.' + prop)


def replay_file(prop, path):
    """Re-run one recorded case; return the violations it shows."""
    with open(path) as f:
        body = json.load(f)
    mod = load(prop)
    import math
    case = eval(body['case_py'], {'__builtins__': {}, 'inf': math.inf,
                                  'nan': math.nan})
    return mod.replay(case)


def main(argv=None):
    ap = argparse.ArgumentParser()
    ap.add_argument('prop')
    ap.add_argument('--tier', default=os.environ.get('VERIF_TIER', 'quick'),
                    choices=['quick', 'thorough'])
    ap.add_argument('--replay')
    ap.add_argument('--nproc', type=int, default=None)
    args = ap.parse_args(argv)
    seed = int(os.environ.get('VERIF_SEED', '0') or 0)
    _reexec_with_hashseed(seed)
    warnings.simplefilter('ignore')

    from vmc import framework as fw
    prop = args.prop
    mod = load(prop)

    if args.replay:
        found = replay_file(prop, args.replay)
        known = {(k['rule'], k['fingerprint']) for k in fw.known_for(prop)}
        bad = [v for v in found
               if (v['rule'], v['fingerprint']) not in known]
        for v in found:
            tag = 'violation' if v in bad else 'known-finding'
            print(f'{tag}: {v["rule"]} [{v["fingerprint"]}] {v["message"]}')
        if not found:
            print('replay: no violation on this tree')
        return 1 if bad else 0

    ctx = fw.Ctx(args.tier, seed, args.nproc or fw.NPROC)
    try:
        acc = mod.run(ctx)
    finally:
        ctx.close()

    known, old, new = fw.classify(prop, acc)
    for key in old:
        k = known[key]
        print(f'KNOWN-FINDING: property={prop} {k["what_fails"]} '
              f'[rule={key[0]} seen={acc.viol_count[key]}]')
    for key in new:
        v = acc.viol_examples[key][0]
        path = fw.write_replay(prop, v)
        print(f'# {key[0]} [{key[1]}] x{acc.viol_count[key]}: '
              f'{v["message"][:400]}')
        print(f'VIOLATION property={prop} replay={path}')
    path, ev = fw.write_evidence(mod, ctx, acc, len(new), len(old))
    try:
        fw.validate_evidence(ev)
    except Exception as e:  # schema-invalid evidence is a harness error
        print('HARNESS ERROR: evidence does not validate:', e)
        # ... unless violations were found: a tree that is broken badly
        # enough (every execution crashes at once) leaves counters such as
        # 'transitions' at 0; the violations above are what counts then
        return 1 if new else 2
    cov = ev['coverage']
    print(f'{prop} {args.tier}: evaluations={cov["evaluations"]} '
          f'distinct={cov["distinct_nontrivial"]} '
          f'states={cov.get("states", "-")} '
          f'transitions={cov.get("transitions", "-")} '
          f'validated={cov.get("traces_validated_against_impl", "-")} '
          f'outcomes={cov["distinct_outcomes"]} '
          f'new_violation_classes={len(new)} known={len(old)} '
          f'wall={ev["wall_s"]}s')
    return 1 if new else 0


if __name__ == '__main__':
    try:
        code = main()
    except SystemExit:
        raise
    except BaseException:
        traceback.print_exc()
        code = 2
    sys.stdout.flush()
    os._exit(code)
