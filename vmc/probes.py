"""Probe processes, steps, emitter and monitored engine.

Everything here uses only public extension seams of vivarium-core:
subclassing Process / Step / Emitter / Engine and the updater / emitter /
divider registries.  One execution at a time is traced through the module
globals TRACE / ENGINE / ORACLE (set by ``vmc.worlds.execute``).
"""
import copy
import itertools

from vivarium.core.process import Process, Step
from vivarium.core.engine import Engine
from vivarium.core.emitter import Emitter
from vivarium.core.registry import (
    updater_registry, emitter_registry, divider_registry)

TRACE = None      # list of event tuples, or None when tracing is off
ENGINE = None     # the engine under observation
ORACLE = None     # choice oracle (explorer D) or None
_UID = itertools.count(1)


def log(*event):
    if TRACE is not None:
        TRACE.append(event)


def now():
    eng = ENGINE
    if eng is None:
        return None
    return getattr(eng, '_vmc_time', None)


def snapshot():
    """Pure value tree of the hierarchy (process nodes rendered by uid)."""
    eng = ENGINE
    if eng is None or not hasattr(eng, 'state'):
        return None
    return pure(eng.state.get_value())


def uid_paths():
    """{uid: path} of every probe currently in the hierarchy."""
    eng = ENGINE
    if eng is None or not hasattr(eng, 'state'):
        return {}
    out = {}
    for path, node in eng.state.depth(
            filter_function=lambda x: isinstance(x.value, Process)):
        out[getattr(node.value, 'uid', None)] = path
    return out


def pure(v):
    if isinstance(v, dict):
        return {k: pure(x) for k, x in v.items()}
    if isinstance(v, tuple) and len(v) == 2 and isinstance(v[0], Process):
        return '<process>'
    if isinstance(v, Process):
        return '<process>'
    return copy.deepcopy(v)


# ----------------------------------------------------------------------
# updaters / dividers registered through the public registries

def collect(current, update):
    """Token updater: the value is the tuple of all tokens ever applied."""
    update = tuple(update)
    for tok in update:
        log('apply', tok, now())
    return tuple(current or ()) + update


def collect_quiet(current, update):
    return tuple(current or ()) + tuple(update)


def _register(registry, name, obj):
    if name not in registry.registry:
        registry.register(name, obj)


_register(updater_registry, 'vmc_collect', collect)
_register(updater_registry, 'vmc_collect_quiet', collect_quiet)


# ----------------------------------------------------------------------
# update templates

class InjectedFault(Exception):
    pass


class Env:
    def __init__(self, probe, n, timestep, states):
        self.probe, self.n, self.timestep, self.states = (
            probe, n, timestep, states)
        self.shared = {}


TEMPLATE_HOOKS = {}     # name -> callable(template, env) (see subst)


def make_process(spec):
    spec = dict(spec)
    kind = spec.pop('cls', 'P')
    cls = {'P': Probe, 'S': ProbeStep, 'D': ProbeDeriver,
           'PC': ProbeClassCondition}[kind]
    return cls(spec)


def build_tree(tree):
    """Nested dict of process specs -> nested dict of probe objects."""
    if isinstance(tree, dict) and 'cls' in tree:
        return make_process(tree)
    return {k: build_tree(v) for k, v in tree.items()}


def subst(tpl, env):
    """Instantiate an update template.

    '$tok'            -> ((pid, n),)           token for a vmc_collect var
    '$tokset'         -> {'_value': (pid, n), '_updater': 'set'}
    '$tokval'         -> (pid, n)
    '$ts'             -> the timestep argument
    {'$n': {k: tpl}, '$else': tpl} -> template chosen by invocation number
    {'$probes': tree} -> nested dict of new probe objects
    {'$lit': x}       -> x unchanged
    {'$state': path}  -> the value the probe read at that path of states
    {'$stateref': path} -> the very object found there (no copy)
    {'$key': prefix}  -> '<prefix><invocation number>'
    {'$call': name, ...} -> TEMPLATE_HOOKS[name](template, env)
    {'$same': name, 'value': tpl} -> ONE object per name within an update
                         (the process returns the same dict for two ports)
    """
    if isinstance(tpl, str):
        if tpl == '$tok':
            return ((env.probe.pid, env.n),)
        if tpl == '$tokval':
            return (env.probe.pid, env.n)
        if tpl == '$tokset':
            return {'_value': (env.probe.pid, env.n), '_updater': 'set'}
        if tpl == '$ts':
            return env.timestep
        if tpl == '$big':
            # a large, unique update (exceeds a pipe's socket buffer)
            return ('x' * int(env.probe.parameters['payload'])
                    + f'{env.probe.pid}:{env.n}')
        return tpl
    if isinstance(tpl, dict):
        if '$n' in tpl:
            by_n = tpl['$n']
            key = env.n if env.n in by_n else str(env.n)
            if key in by_n:
                return subst(by_n[key], env)
            return subst(tpl.get('$else', {}), env)
        if '$call' in tpl:
            return TEMPLATE_HOOKS[tpl['$call']](tpl, env)
        if '$same' in tpl:
            if tpl['$same'] not in env.shared:
                env.shared[tpl['$same']] = subst(tpl['value'], env)
            return env.shared[tpl['$same']]
        if '$probes' in tpl:
            return build_tree(tpl['$probes'])
        if '$lit' in tpl:
            return copy.deepcopy(tpl['$lit'])
        if '$key' in tpl:
            return f"{tpl['$key']}{env.n}"
        if '$stateref' in tpl:
            v = env.states
            for k in tpl['$stateref']:
                v = v[k]
            return v
        if '$state' in tpl:
            v = env.states
            for k in tpl['$state']:
                v = v[k]
            return copy.deepcopy(v)
        return {k: subst(v, env) for k, v in tpl.items()}
    if isinstance(tpl, list):
        return [subst(v, env) for v in tpl]
    if isinstance(tpl, tuple):
        return tuple(subst(v, env) for v in tpl)
    return copy.deepcopy(tpl)


# ----------------------------------------------------------------------
# probes

class _ProbeMixin:
    """Logs every callback and answers from its parameters or the oracle.

    parameters:
      pid     - name used in tokens and trace events
      schema  - the ports schema (returned verbatim)
      ts      - constant timestep, or 'oracle'
      ts_menu - menu for the oracle
      cond    - 'always' | 'never' | 'oracle' | 'path' (uses _condition)
                | {'$n': {...}} scripted by poll number
      update  - update template (see ``subst``)
      init    - optional initial_state() result
    """
    defaults = {
        'pid': None, 'schema': {}, 'ts': 1, 'cond': 'always',
        'update': {}, 'init': None, 'ts_menu': None, 'log_states': True,
        'log_snapshot': False, 'raise_at': None, 'payload': 0,
        'reuse_update': False, 'log_return_copy': False,
        'schema_by_reference': False,
    }

    def _probe_init(self):
        self.uid = next(_UID)
        self.parent_uid = None
        self.n = 0
        self.polls = 0
        self.conds = 0
        self.pid = self.parameters.get('pid') or self.name

    def __deepcopy__(self, memo):
        # the library's own way of copying a process (if it defines one),
        # else Python's default; the copy gets a new uid
        inherited = getattr(super(), '__deepcopy__', None)
        if inherited is not None:
            new = inherited(memo)
        else:
            cls = self.__class__
            new = cls.__new__(cls)
            memo[id(self)] = new
            for k, v in self.__dict__.items():
                setattr(new, k, copy.deepcopy(v, memo))
        new.uid = next(_UID)
        new.parent_uid = self.uid
        return new

    def ports_schema(self):
        if self.parameters.get('schema_by_reference'):
            # a process that hands out ONE persistent schema object (a
            # class-level template, a schema kept in its parameters)
            return self.parameters['schema']
        return copy.deepcopy(self.parameters['schema'])

    def initial_state(self, config=None):
        init = self.parameters.get('init')
        if self.parameters.get('init_by_reference'):
            # a process that returns a dictionary it keeps
            return init
        return copy.deepcopy(init) if init else {}

    def calculate_timestep(self, states):
        ts = self.parameters['ts']
        k = self.polls
        self.polls += 1
        if ts == 'oracle' and ORACLE is not None:
            menu = self.parameters['ts_menu']
            ts = ORACLE.choose(('ts', self.pid, k), menu, self)
        elif isinstance(ts, dict) and '$even_odd' in ts:
            # a timestep that depends on the state the process is shown
            port, var = ts['$even_odd']
            ts = 1 if states[port][var] % 2 == 0 else 2
        elif isinstance(ts, dict):
            by = ts['$n']
            ts = by.get(k, by.get(str(k), ts.get('$else', 1)))
        log('poll', self.uid, self.pid, k, now(), ts,
            copy.deepcopy(states) if self.parameters['log_states'] else None,
            front_time(self))
        return ts

    def update_condition(self, timestep, states):
        cond = self.parameters['cond']
        k = self.conds
        self.conds += 1
        if cond == 'always':
            res = True
        elif cond == 'never':
            res = False
        elif cond == 'oracle' and ORACLE is not None:
            res = ORACLE.choose(('cond', self.pid, k), [True, False], self)
        elif cond == 'path':
            res = super().update_condition(timestep, states)
        elif isinstance(cond, dict) and '$min_ts' in cond:
            # a condition that depends on the timestep argument
            res = timestep >= cond['$min_ts']
        elif isinstance(cond, dict):
            by = cond['$n']
            res = by.get(k, by.get(str(k), cond.get('$else', True)))
        else:
            res = bool(cond)
        log('cond', self.uid, self.pid, k, now(), timestep, res,
            copy.deepcopy(states) if self.parameters['log_states'] else None,
            self.is_step())
        return res

    def next_update(self, timestep, states):
        n = self.n
        self.n += 1
        if self.parameters['log_snapshot']:
            log('snap', self.uid, self.pid, n, now(), snapshot(),
                uid_paths().get(self.uid))
        log('invoke', self.uid, self.pid, n, now(), timestep,
            copy.deepcopy(states), self.is_step())
        if self.parameters['raise_at'] is not None and \
                n == self.parameters['raise_at']:
            raise InjectedFault(f'injected fault in {self.pid} call {n}')
        if self.parameters.get('call_functions') and n == 0:
            # a model with thousands of generated rate laws: each is a
            # distinct function (a profiler keeps one record for each)
            scope = {}
            for i in range(self.parameters['call_functions']):
                exec(compile(f'def rate_law_{i}(x):\n    return x + {i}\n',
                             f'<generated_{i}>', 'exec'), scope)
                scope[f'rate_law_{i}'](1)
        if self.parameters.get('reuse_update') and \
                getattr(self, '_reused', None) is not None:
            # the process hands back the very object it returned before
            upd = self._reused
        else:
            upd = subst(self.parameters['update'],
                        Env(self, n, timestep, states))
            if self.parameters.get('reuse_update'):
                self._reused = upd
        log('return', self.uid, self.pid, n, now(), copy.deepcopy(upd)
            if (self.parameters.get('reuse_update') or
                self.parameters.get('log_return_copy')) else upd)
        return upd


class Probe(_ProbeMixin, Process):
    def __init__(self, parameters=None):
        super().__init__(parameters)
        self._probe_init()


class ProbeClassCondition(Probe):
    """A process class that declares its condition variable in the class
    ``defaults`` (not in the constructor's parameters)."""
    defaults = dict(_ProbeMixin.defaults, _condition=('gate', 'on'))


class ProbeStep(_ProbeMixin, Step):
    def __init__(self, parameters=None):
        super().__init__(parameters)
        self._probe_init()


class ProbeDeriver(_ProbeMixin, Process):
    """A legacy deriver: a Process subclass whose is_step() is true."""
    def __init__(self, parameters=None):
        super().__init__(parameters)
        self._probe_init()

    def is_step(self):
        return True


# ----------------------------------------------------------------------
# emitter

class ProbeEmitter(Emitter):
    """Records every emit() call verbatim, with a snapshot of the state."""

    def __init__(self, config):
        super().__init__(config)
        self.records = []

    def emit(self, data):
        rec = {'table': data.get('table'),
               'data': copy.deepcopy(
                   data.get('data')) if data.get('table') == 'history'
               else None,
               'clock': now(),
               'snapshot': snapshot(),
               'paths': uid_paths()}
        self.records.append(rec)
        log('emit', rec['table'],
            rec['data'].get('time') if rec['data'] else None, now())

    def get_data(self, query=None):
        return {r['data']['time']: {
            k: v for k, v in r['data'].items() if k != 'time'}
            for r in self.records if r['table'] == 'history'}


_register(emitter_registry, 'vmc_probe', ProbeEmitter)


# ----------------------------------------------------------------------
# engine whose clock writes are observable

class ClockViolation(Exception):
    pass


def front_time(probe):
    """Soft read: the time up to which the scheduler has simulated this
    probe (end of its last interval); None if not available."""
    eng = ENGINE
    try:
        for path, proc in eng.process_paths.items():
            if proc is probe:
                return eng.front[path]['time']
    except Exception:  # noqa
        pass
    return None


def front_signature(engine, t):
    """Soft read of the scheduler's front: who is behind / in flight.

    Used only to count distinct scheduler states; skipped if absent."""
    front = getattr(engine, 'front', None)
    if not isinstance(front, dict) or t is None:
        return None
    try:
        return tuple(sorted(
            (str(path), round(adv['time'] - t, 9), bool(adv['update']))
            for path, adv in front.items()))
    except Exception:  # noqa
        return None


class MonitoredEngine(Engine):
    """Engine + a ``global_time`` property that logs every clock write.

    Nothing else is overridden.  ``_vmc_guard`` is an optional callable
    ``(old, new)`` used by C03 to stop non-terminating loops (lasso).
    """
    _vmc_time = None
    _vmc_guard = None

    def __init__(self, *args, **kwargs):
        global ENGINE
        ENGINE = self
        super().__init__(*args, **kwargs)

    @property
    def global_time(self):
        return self._vmc_time

    @global_time.setter
    def global_time(self, value):
        old = self._vmc_time
        self._vmc_time = value
        if TRACE is not None:
            log('clock', old, value, front_signature(self, value))
        guard = self._vmc_guard
        if guard is not None:
            guard(old, value)
