"""Grammar of ports schemas x well-formed topologies (C06, C07, C15).

A *shape* is a list of ports; each port is (name, schema, topology entry).
Everything is a plain literal so that cases can be printed and replayed.
"""
import itertools

LEAF = {'_default': 0, '_emit': True}


def leaf(default=0, **kw):
    d = {'_default': default, '_emit': True}
    d.update(kw)
    return d


# tuple paths relative to the compartment that holds the process; the
# number is the depth the process must at least be placed at
TUPLES = [((), 0), (('s',), 0), (('s', 't'), 0), (('..', 'u'), 1),
          (('..', '..', 'w'), 2), (('..', 'u', 'x'), 1),
          # two separate runs of '..'
          (('s', '..', 's2'), 0), (('..', 'u', 'q', '..', 'u2'), 1),
          (('s', 't', '..', '..', 'v', '..', 'w2'), 0)]


def port_kinds(reduced=False):
    """[(kind label, schema maker(name), [(topology entry, min depth)])]"""
    kinds = []
    # 1. leaf port: the port itself is a variable
    kinds.append(('leaf', lambda: leaf(),
                  [(t + ('lv',), d) for t, d in TUPLES]))
    # 2. flat ports with one or two variables
    flat1 = lambda: {'a': leaf()}  # noqa
    flat2 = lambda: {'a': leaf(), 'b': leaf()}  # noqa
    tuples = [(t, d) for t, d in TUPLES if t != ()]
    tuples.append(((), 0))
    kinds.append(('flat1', flat1, tuples))
    t2 = list(tuples)
    # _path dictionaries: rename none / one / all
    for (base, d) in ((('s',), 0), (('..', 'u'), 1)):
        t2.append(({'_path': base}, d))
        t2.append(({'_path': base, 'a': ('ra',)}, d))
        t2.append(({'_path': base, 'a': ('ra',), 'b': ('rb',)}, d))
        t2.append(({'_path': base, 'b': ('..', 'elsewhere', 'rb')}, d))
        t2.append(({'_path': base, 'a': ('deep', 'ra')}, d))
    # _path-less dictionary that lists every variable (port split)
    t2.append(({'a': ('s1', 'a'), 'b': ('s2', 'b')}, 0))
    t2.append(({'a': ('s1', 'x'), 'b': ('..', 's3', 'y')}, 1))
    kinds.append(('flat2', flat2, t2))
    # 3. port nested two deep
    nested = lambda: {'n': {'a': leaf(), 'm': {'b': leaf()}}, 'c': leaf()}  # noqa
    t3 = [(('s',), 0), (('..', 'u'), 1), ((), 0),
          ({'_path': ('s',)}, 0),
          ({'_path': ('s',), 'n': ('other',)}, 0),
          ({'_path': ('s',), 'n': {'_path': ('inner',), 'a': ('ra',)}}, 0),
          ({'_path': ('s',), 'n': {'_path': ('..', 'side'),
                                   'm': ('mm',)}, 'c': ('rc',)}, 0),
          ({'_path': ('..', 'u'), 'n': {'_path': ('nn',),
                                        'm': {'_path': ('q',),
                                              'b': ('rb',)}}}, 1),
          # a _path-less inner dictionary must list every variable
          ({'_path': ('s',), 'n': {'a': ('xa',), 'm': ('xm',)}}, 0)]
    kinds.append(('nested', nested, t3))
    # 4. glob port over pre-existing children
    glob = lambda: {'*': {'a': leaf(), 'b': leaf()}}  # noqa
    kinds.append(('glob', glob, [
        (('g',), 0), (('..', 'gg'), 1), (('s', 'g'), 0),
        # dictionary topologies: the children's variables renamed, and a
        # glob dictionary with its own _path (children of another store)
        ({'_path': ('g',), '*': {'a': ('ra',), 'b': ('rb',)}}, 0),
        ({'_path': ('g',), '*': {'_path': ('..', 'g2'), 'a': ('ra',),
                                 'b': ('deep', 'b')}}, 0),
        ({'_path': ('..', 'gg'), '*': {'_path': ('..', 'c2', 'g3'),
                                       'a': ('a',), 'b': ('rb',)}}, 1)]))
    globleaf = lambda: {'*': leaf()}  # noqa
    kinds.append(('globleaf', globleaf, [(('gl',), 0), (('..', 'gl2'), 1)]))
    if reduced:
        keep = {'leaf': [0, 3], 'flat1': [0, 2], 'flat2': [0, 6, 7, 16],
                'nested': [0, 5], 'glob': [0], 'globleaf': [0]}
        kinds = [(k, mk, [ts[i] for i in keep[k] if i < len(ts)])
                 for k, mk, ts in kinds]
    return kinds


PLACEMENTS = [(), ('c',), ('c', 'd')]


def single_port_shapes():
    """One port, full grammar, every placement deep enough."""
    for kind, mk, topos in port_kinds():
        for ti, (topo, mind) in enumerate(topos):
            for place in PLACEMENTS:
                if len(place) >= mind:
                    yield {'ports': [('p0', kind, ti)], 'place': place}


def multi_port_shapes(n_ports, reduced=True):
    """n ports from the (reduced) grammar; includes ports wired to one
    store and variables wired to one node."""
    kinds = port_kinds(reduced=reduced)
    options = [(kind, ti) for kind, mk, topos in kinds
               for ti in range(len(topos))]
    for combo in itertools.combinations_with_replacement(options, n_ports):
        for place in PLACEMENTS[1:2] if n_ports > 2 else PLACEMENTS[:2]:
            ok = True
            for kind, ti in combo:
                topos = dict((k, t) for k, _, t in kinds)[kind]
                if len(place) < topos[ti][1]:
                    ok = False
            if ok:
                yield {'ports': [(f'p{i}', kind, ti)
                                 for i, (kind, ti) in enumerate(combo)],
                       'place': place, 'reduced': reduced}


def build(shape):
    """(ports schema, process topology) of a shape."""
    kinds = {k: (mk, topos) for k, mk, topos in
             port_kinds(reduced=shape.get('reduced', False))}
    schema, topology = {}, {}
    for (name, kind, ti) in shape['ports']:
        mk, topos = kinds[kind]
        schema[name] = mk()
        topology[name] = topos[ti][0]
    return schema, topology


GLOB_CHILDREN = ['k1', 'k2']
