"""Agents family: structural operations issued from INSIDE the compartments
(the canonical use of vivarium: a division / death / migration process that
lives in the agent and reaches its container through '..').

Containers X, Y hold agents; an agent is a compartment with a growth process
(timestep 1 or 2), a controller ``ctl`` (a process or a step) wired to both
containers, a legacy deriver d0 and flow steps s1 <- s2.  One operation per
tick: (issuer agent, operation), where the operation is one of the
structural operations of ``vmc.structural`` applied to the issuer itself or
to a sibling.  The reference hierarchy is ``structural.Model``; explorer B
enumerates the histories with canonical-state merging.
"""
import copy

from vmc import probes
from vmc import structural as st

VAR = st.VAR
OUT = {'_default': -1, '_updater': 'set', '_emit': True}


def agent_child_schema():
    return {'v': dict(VAR)}


def agent_inner(cfg):
    """(processes, steps, flow, topology) of one agent.  cfg: dict with
    ctl ('P' | 'S'), ts (growth timestep), order ('ctl-first' |
    'grow-first'), fresh (daughters get new processes), plan."""
    grow = {'cls': 'P', 'pid': 'grow', 'ts': cfg['ts'], 'log_states': False,
            'schema': {'in': {'v': dict(VAR), 'tok': dict(st.TOKVAR)}},
            'update': {'in': {'v': 1, 'tok': '$tok'}}}
    ctl = {'cls': cfg['ctl'], 'pid': 'ctl', 'ts': 1,
           'schema': {'in': {'v': dict(VAR)},
                      'X': {'*': agent_child_schema()},
                      'Y': {'*': agent_child_schema()}},
           'update': {'$call': 'agentplan', 'cfg': cfg}}
    steps, flow = {}, {}
    for sid in ('s2', 's1'):
        src = ('in', 'v') if sid == 's1' else ('in', 'o_s1')
        steps[sid] = {'cls': 'S', 'pid': sid, 'log_states': False,
                      'schema': {'in': {'v': dict(VAR), 'o_s1': dict(OUT),
                                        'o_s2': dict(OUT)}},
                      'update': {'in': {f'o_{sid}': {'$state': src}}}}
    flow = {'s1': [], 's2': [('s1',)]}
    steps['d0'] = {'cls': 'S', 'pid': 'd0', 'log_states': False,
                   'schema': {'in': {'v': dict(VAR), 'o_d0': dict(OUT)}},
                   'update': {'in': {'o_d0': {'$state': ('in', 'v')}}}}
    if cfg['ctl'] == 'P':
        processes = {'ctl': ctl, 'grow': grow} if cfg['order'] == \
            'ctl-first' else {'grow': grow, 'ctl': ctl}
    else:
        processes = {'grow': grow}
        steps = dict([('ctl', ctl)] + list(steps.items())) if \
            cfg['order'] == 'ctl-first' else dict(
                list(steps.items()) + [('ctl', ctl)])
        flow['ctl'] = []
    topology = {'grow': {'in': ()},
                'ctl': {'in': (), 'X': ('..', '..', 'X'),
                        'Y': ('..', '..', 'Y')},
                'd0': {'in': ()}, 's1': {'in': ()}, 's2': {'in': ()}}
    return processes, steps, flow, topology


def op_body(op, cfg):
    """The update (keyed by port X / Y) for one structural operation."""
    name = op[0]
    if name == 'div':
        _, c, k = op
        ds = []
        for i in '01':
            d = {'key': k + i}
            if cfg['fresh']:
                p, s, f, t = agent_inner(cfg)
                d.update({'processes': probes.build_tree(p),
                          'steps': probes.build_tree(s), 'flow': f,
                          'topology': t})
            ds.append(d)
        return {c: {'_divide': {'mother': k, 'daughters': ds}}}
    if name == 'gen':
        _, c, k = op
        p, s, f, t = agent_inner(cfg)
        return {c: {'_generate': [{
            'key': k, 'processes': probes.build_tree(p),
            'steps': probes.build_tree(s), 'flow': f, 'topology': t,
            'initial_state': {'v': 7}}]}}
    if name == 'add':
        _, c, k = op
        return {c: {'_add': [{'key': k, 'state': {'v': 5}}]}}
    if name == 'del':
        _, c, k = op
        return {c: {'_delete': [k]}}
    if name == 'mov':
        _, c, k, d = op
        return {c: {'_move': [{'source': (k,), 'target': d}]}}
    if name == 'movupd':
        _, c, k, d = op
        return {c: {'_move': [{'source': (k,), 'target': d,
                               'update': {'v': 100}}]}}
    raise ValueError(op)


def agentplan(tpl, env):
    """Template hook: the controller looks up what the plan says for its
    own agent at the current time."""
    cfg = tpl['cfg']
    path = probes.uid_paths().get(env.probe.uid)
    if not path or len(path) < 3:
        return {}
    c, k = path[-3], path[-2]
    t = probes.now()
    for entry in cfg['plan']:
        et, ec, ek, op = entry
        if et == t and ec == c and ek == k:
            probes.log('issue', env.probe.uid, (c, k), t, op)
            return op_body(tuple(op), cfg)
    return {}


probes.TEMPLATE_HOOKS['agentplan'] = agentplan


def world(init, history, cfg, horizon):
    """history: [((c, k) issuer, op)], one per tick."""
    cfg = dict(cfg)
    plan = []
    for i, (issuer, op) in enumerate(history):
        t_issue = i if cfg['ctl'] == 'P' else i + 1
        plan.append([t_issue, issuer[0], issuer[1], list(op)])
    cfg['plan'] = plan
    processes, steps, flow, topology, state = {}, {}, {}, {}, {}
    for c in st.CONTAINERS:
        for k in init.get(c, []):
            p, s, f, t = agent_inner(cfg)
            processes.setdefault(c, {})[k] = p
            steps.setdefault(c, {})[k] = s
            flow.setdefault(c, {})[k] = f
            topology.setdefault(c, {})[k] = t
            state.setdefault(c, {})[k] = {
                'v': 10 * (1 + st.KEYS.index(k[0]))}
    processes['ticker'] = {
        'cls': 'P', 'pid': 'ticker', 'ts': 1, 'log_states': False,
        'schema': {'tk': {'n': dict(VAR)},
                   'X': {'*': agent_child_schema()},
                   'Y': {'*': agent_child_schema()}},
        'update': {'tk': {'n': 1}}}
    topology['ticker'] = {'tk': ('ticker_store',), 'X': ('X',), 'Y': ('Y',)}
    return {'processes': processes, 'steps': steps, 'flow': flow,
            'topology': topology, 'state': state, 'entry': 'composite',
            'script': [('update', horizon)]}


# ----------------------------------------------------------------------
# explorer B over (issuer, operation) histories

def agent_menu(model, keys=st.KEYS, with_sibling_ops=True):
    """All enabled (issuer, op): every agent that holds a controller may
    operate on itself and (optionally) on its siblings / the other
    container."""
    out = []
    issuers = [(c, k) for c in st.CONTAINERS for k in sorted(model.t[c])
               if model.t[c][k]['inner'] == 'agent']
    base = [o for o in st.menu(model, with_pairs=False, keys=keys)
            if o[0] != 'movupd' or True]
    for issuer in issuers:
        for op in base:
            self_op = (op[1], op[2]) == issuer
            if not self_op and not with_sibling_ops:
                continue
            if self_op and op[0] in ('add', 'gen'):
                continue
            out.append((issuer, op))
    return out


def canon(model):
    return model.canon()


def apply_op(model, op, fresh, ts=None):
    """Model.apply + what is particular to this family: daughters that are
    given fresh processes are agents whatever the mother was; every agent
    grows with the configured timestep."""
    model.apply(op)
    if op[0] == 'div' and fresh:
        for i in '01':
            model.t[op[1]][op[2] + i]['inner'] = 'agent'
    if ts is not None:
        for c in st.CONTAINERS:
            for comp in model.t[c].values():
                if comp['inner'] == 'agent':
                    comp['ts'] = ts


def enumerate_histories(init, depth, fresh=False, with_sibling_ops=True):
    root = st.Model(init, 'agent', gen_kind='agent')
    seen = {canon(root)}
    frontier = [((), root)]
    out, transitions = [], set()
    for level in range(depth):
        nxt = []
        for hist, model in frontier:
            for issuer, op in agent_menu(model,
                                         with_sibling_ops=with_sibling_ops):
                after = model.copy()
                apply_op(after, op, fresh)
                h2 = hist + ((issuer, op),)
                out.append(h2)
                transitions.add((canon(model), (issuer, op), canon(after)))
                c = canon(after)
                if c not in seen:
                    seen.add(c)
                    nxt.append((h2, after))
        frontier = nxt
    return out, seen, transitions


def replay_model(init, history, ts, fresh):
    m = st.Model(init, 'agent', gen_kind='agent',
                 ts_of={k: ts for k in st.KEYS})
    out = [m.copy()]
    for _, op in history:
        apply_op(m, op, fresh, ts)
        out.append(m.copy())
    return out


def canon(model):     # noqa: F811 - finer than Model.canon: birth parity
    return tuple((c, tuple(sorted(
        (k, v['inner'], v['born'] % 2) for k, v in kids.items())))
        for c, kids in sorted(model.t.items()))


# ----------------------------------------------------------------------
# one execution, judged for one property

INITS = [{'X': ['a', 'b'], 'Y': []}, {'X': ['a'], 'Y': ['b']}]


def footprint(model, issuer, op):
    return set(model.footprint(op))


def busy_moves(history, models, cfg):
    """Moves of an agent whose growth process has an update in flight
    (known finding K2)."""
    out = []
    for i, (issuer, op) in enumerate(history):
        if op[0] not in ('mov', 'movupd'):
            continue
        comp = models[i].t[op[1]].get(op[2])
        if not comp or comp['inner'] != 'agent':
            continue
        t_apply = i + 1
        aligned = (t_apply - comp['born']) % comp['ts'] == 0
        if not aligned:
            out.append((i, 'inflight'))
    return out


def judge(job, acc, prop):
    from vmc import framework as fw
    from vmc import worlds
    init_i, history, ctl, ts, order, fresh = job
    init = INITS[init_i]
    cfg = {'ctl': ctl, 'ts': ts, 'order': order, 'fresh': fresh}
    horizon = len(history) + 3
    last = len(history)
    case = {'family': 'agents', 'job': job}
    spec = world(init, history, cfg, horizon)
    ex = worlds.execute(spec)
    models = replay_model(init, history, ts, fresh)
    busy = busy_moves(history, models, cfg)
    names = '+'.join(('self-' if (op[1], op[2]) == iss else 'sib-') + op[0]
                     for iss, op in history)
    lastname = names.split('+')[-1]
    mode = f"{ctl}:{order}:{'fresh' if fresh else 'copy'}"
    V = lambda rule, fp, msg: acc.violate(  # noqa
        fw.violation(rule, fp, msg, case))
    acc.case(key=('agents',) + tuple(job), outcome=f'agents:{mode}:{names}'
             if last <= 1 else f'agents:{mode}')
    acc.state(('agents', canon(models[-1])))
    for a, b, (iss, op) in zip(models, models[1:], history):
        acc.transition(('agents', canon(a)), ('agents', canon(b)),
                       (('self' if (op[1], op[2]) == iss else 'sib'),
                        op[0], mode))
    acc.validated += 1
    if ex.error:
        e = ex.error[2]
        pend = 'still pending' in str(e)
        if prop == 'C10':
            fp = f'agents:{lastname}:{mode}:{type(e).__name__}'
            if pend and busy:
                fp = 'still-pending-after-move-of-busy-process'
            V('C10.crash', fp,
              f'agents history {history} ({mode}, ts {ts}): unexpected '
              f'{e!r}'[:600])
        elif not (pend and busy):
            V(f'{prop}.crash' if prop != 'C09' else 'C09.tree',
              f'agents:raises:{lastname}:{mode}:{type(e).__name__}',
              f'agents history {history} ({mode}, ts {ts}): unexpected '
              f'{e!r}'[:600])
        return
    eng = ex.engine
    recs = [r for r in eng.emitter.records if r['table'] == 'history']
    paths_at = {r['data']['time']: r['paths'] for r in recs}
    snap_at = {r['data']['time']: r['snapshot'] for r in recs}

    def model_at(t):
        return models[min(int(t), last)]

    if prop == 'C09':
        # the hierarchy of every row is the reference hierarchy
        for t, snap in sorted(snap_at.items()):
            m = model_at(t)
            for c in st.CONTAINERS:
                got = snap.get(c, {}) or {}
                want = m.t[c]
                if set(got) != set(want):
                    V('C09.tree', f'agents:children-differ:{lastname}:'
                      f'{mode}',
                      f'agents history {history} ({mode}): at t={t} '
                      f'{c} holds {sorted(got)}, the reference hierarchy '
                      f'{sorted(want)}')
                    return
                for k, comp in want.items():
                    node = got[k]
                    inner = {'grow', 'ctl', 'd0', 's1', 's2'} if \
                        comp['inner'] == 'agent' else set()
                    have = {x for x, y in node.items() if y == '<process>'}
                    if have != inner:
                        V('C09.tree', f'agents:processes-differ:'
                          f'{lastname}:{mode}',
                          f'agents history {history} ({mode}): at t={t} '
                          f'{c}/{k} holds processes {sorted(have)}, '
                          f'expected {sorted(inner)}')
                        return
        # a moved agent keeps its process objects (and nothing else moves)
        for i, (iss, op) in enumerate(history):
            before, after = paths_at.get(i, {}), paths_at.get(i + 1, {})
            for uid, path in before.items():
                if len(path) < 3:
                    continue
                new = after.get(uid)
                if op[0] in ('mov', 'movupd') and \
                        tuple(path[:2]) == (op[1], op[2]):
                    want = (op[3],) + tuple(path[1:])
                elif tuple(path[:2]) in footprint(models[i], iss, op):
                    continue
                else:
                    want = tuple(path)
                if new is None or tuple(new) != want:
                    V('C09.tree', f'agents:process-object-not-kept:'
                      f'{op[0]}:{mode}',
                      f'agents history {history} ({mode}): operation '
                      f'{i} ({op}): the process object at {path} is at '
                      f'{new} afterwards, expected {want}')
                    return
        return

    if prop == 'C07':
        for ev in ex.trace:
            if ev[0] != 'invoke' or ev[2] != 'ctl':
                continue
            t = ev[4]
            if t is None or t >= horizon:
                continue
            if ctl == 'P':
                m = model_at(t)
            else:
                m = models[min(max(int(t) - 1, 0), last)]
            states = ev[6]
            for c in st.CONTAINERS:
                got = set(states.get(c, {}))
                want = set(m.t[c])
                if got != want:
                    V('C07.view', f'agents:controller-sees-stale-'
                      f'siblings:{mode}',
                      f'agents history {history} ({mode}): ctl invoked at '
                      f't={t} sees {c} = {sorted(got)}, the hierarchy '
                      f'holds {sorted(want)}')
                    return
        return

    # ---------------- C10
    from vmc.props import C10 as c10
    k2 = bool(busy)
    # (i) process invocations
    want_inv = set()
    for t in range(horizon):
        m = model_at(t)
        for c in st.CONTAINERS:
            for k, comp in m.t[c].items():
                if comp['inner'] != 'agent':
                    continue
                if (t - comp['born']) % comp['ts'] == 0:
                    want_inv.add(((c, k, 'grow'), t))
                if ctl == 'P':
                    want_inv.add(((c, k, 'ctl'), t))
    got_inv = set()
    phases = {}
    for ev in ex.trace:
        if ev[0] != 'invoke' or ev[2] == 'ticker':
            continue
        t = ev[4]
        if ev[7]:
            phases.setdefault(t, []).append((ev[1], ev[2]))
        elif t is not None and t < horizon:
            got_inv.add((paths_at.get(t, {}).get(ev[1]), t))
    if got_inv != want_inv:
        missing = sorted(want_inv - got_inv, key=str)
        extra = sorted(got_inv - want_inv, key=str)
        fp = ('agents:process-not-invoked-on-schedule' if missing else
              'agents:unexpected-process-invocation') + \
            f':{lastname}:{mode}'
        if k2:
            fp = 'schedule-after-move-of-busy-process'
        V('C10.schedule', fp,
          f'agents history {history} ({mode}, ts {ts}): invocations '
          f'missing {missing[:4]} extra {extra[:4]}')
        return
    # (ii) step runs per phase
    stepnames = ('d0', 's1', 's2') + (('ctl',) if ctl == 'S' else ())
    for t in range(0, horizon + 1):
        m_after = model_at(t)
        m_before = models[min(max(t - 1, 0), last)]
        in_phase_op = ctl == 'S' and 1 <= t <= last
        touched = footprint(m_before, *history[t - 1]) if in_phase_op \
            else set()
        runs = {}
        m_ref = m_before if in_phase_op else m_after
        for c in st.CONTAINERS:
            for k, comp in m_ref.t[c].items():
                if comp['inner'] != 'agent':
                    continue
                for s in stepnames:
                    runs[(c, k, s)] = (0, 1) if (c, k) in touched else 1
        if in_phase_op:
            # created in this phase: first runs in the next one; moved in:
            # may run under either path
            for c in st.CONTAINERS:
                for k, comp in m_after.t[c].items():
                    if (c, k) in touched and (c, k) not in \
                            [(cc, kk) for cc in st.CONTAINERS
                             for kk in m_before.t[cc]]:
                        moved = any(comp['cell'] is x['cell']
                                    for cc in st.CONTAINERS
                                    for x in m_before.t[cc].values())
                        for s in stepnames:
                            runs[(c, k, s)] = (0, 1) if moved else 0
        seen = {}
        row_paths = paths_at.get(t, {})
        prev_paths = paths_at.get(t - 1, {}) if t > 0 else {}
        for uid, name in phases.get(t, []):
            path = row_paths.get(uid) or prev_paths.get(uid)
            key = tuple(path[:2]) + (name,) if path else (None, uid, name)
            seen[key] = seen.get(key, 0) + 1
        for key in set(seen) | set(runs):
            want = runs.get(key, 0)
            got = seen.get(key, 0)
            ok = (want[0] <= got <= want[1]) if isinstance(want, tuple) \
                else got == want
            if not ok:
                V('C10.steps', f'agents:step-ran-{got}-times-expected-'
                  f'{want}:{lastname}:{mode}',
                  f'agents history {history} ({mode}): phase at t={t}: '
                  f'step {key} ran {got} times, expected {want}')
                return
    # (iii) data flow: d0/s1/s2 ran at their place on the settled state
    for t, snap in sorted(snap_at.items()):
        m = model_at(t)
        in_phase_op = ctl == 'S' and 1 <= t <= last
        touched = footprint(models[int(t) - 1], *history[int(t) - 1]) \
            if in_phase_op else set()
        for c in st.CONTAINERS:
            for k, comp in m.t[c].items():
                if comp['inner'] != 'agent' or (c, k) in touched:
                    continue
                node = (snap.get(c, {}) or {}).get(k)
                if not isinstance(node, dict):
                    V('C10.schedule', f'agents:agent-missing:{lastname}',
                      f'agents history {history} ({mode}): at t={t} '
                      f'{c}/{k} is not in the hierarchy')
                    return
                outs = (node.get('o_d0'), node.get('o_s1'),
                        node.get('o_s2'))
                if any(o != node.get('v') for o in outs):
                    V('C10.steps', f'agents:step-outputs-stale:'
                      f'{lastname}:{mode}',
                      f'agents history {history} ({mode}): at t={t} '
                      f'{c}/{k} has v={node.get("v")} but step outputs '
                      f'(d0, s1, s2) = {outs}')
                    return
    # (iv) published composite, (v) rebuilt engine
    pub = {'processes': eng.processes, 'steps': eng.steps,
           'flow': eng.flow, 'topology': eng.topology}
    fromstore = {'processes': eng.state.get_processes(),
                 'steps': eng.state.get_steps(),
                 'flow': eng.state.get_flow(),
                 'topology': eng.state.get_topology()}
    for part in pub:
        a = c10._drop_empty_dicts(c10.render(pub[part]))
        b = c10._drop_empty_dicts(c10.render(fromstore[part] or {}))
        if part != 'flow':
            a, b = c10.prune(a), c10.prune(b)
        if a != b:
            V('C10.published', f'agents:engine-{part}-differs-from-'
              f'hierarchy:{lastname}:{mode}',
              f'agents history {history} ({mode}): Engine.{part} = {a}, '
              f'the hierarchy holds {b}')
            return
    comp_obj = getattr(eng, '_vmc_composite', None)
    if comp_obj is not None:
        for part in pub:
            a = c10._drop_empty_dicts(c10.render(comp_obj[part]))
            b = c10._drop_empty_dicts(c10.render(pub[part]))
            if a != b:
                V('C10.published', f'agents:composite-{part}-not-written-'
                  f'back:{lastname}:{mode}',
                  f'agents history {history} ({mode}): the Composite has '
                  f'{part} = {a}, the engine publishes {b}')
                return
    import itertools
    from vivarium.core.composer import Composite
    from vmc.probes import MonitoredEngine
    try:
        state = c10._pure_state(eng.state.get_value())
        new_comp = copy.deepcopy(Composite({
            'processes': eng.processes, 'steps': eng.steps,
            'flow': eng.flow, 'topology': eng.topology}))
        probes.TRACE = None
        rebuilt = MonitoredEngine(
            composite=new_comp, initial_state=copy.deepcopy(state),
            initial_global_time=eng.global_time,
            emitter={'type': 'vmc_probe'}, display_info=False)
        rebuilt.update(2)
        n0 = len(eng.emitter.records)
        probes.ENGINE = eng
        eng.update(2)
        cont = [c10._row(r) for r in eng.emitter.records[n0:]]
        probes.ENGINE = rebuilt
        reb = [c10._row(r) for r in rebuilt.emitter.records[2:]]
    except Exception as e:  # noqa
        V('C10.rebuild', f'agents:raises-{type(e).__name__}:{lastname}:'
          f'{mode}',
          f'agents history {history} ({mode}): rebuilding / continuing '
          f'raised {e!r}'[:500])
        return
    if cont != reb:
        diff = next((a, b) for a, b in itertools.zip_longest(cont, reb)
                    if a != b)
        V('C10.rebuild', f'agents:rebuilt-engine-diverges:{lastname}:'
          f'{mode}',
          f'agents history {history} ({mode}): continued engine row '
          f'{diff[0]}, rebuilt engine row {diff[1]}')


def jobs(depth, ts_list=(1, 2), lite=False, half=False):
    """lite: growth timestep 1 only, listing order tied to the daughters'
    mode (for the properties that do not depend on what is in flight)."""
    out = []
    if lite:
        for init_i, init in enumerate(INITS):
            for fresh in (False, True):
                hists, _, _ = enumerate_histories(init, depth, fresh)
                for h in hists:
                    for ctl in ('P', 'S'):
                        out.append((init_i, h, ctl, 1, 'grow-first'
                                    if fresh else 'ctl-first', fresh))
        return out
    for init_i, init in enumerate(INITS):
        for fresh in (False, True):
            hists, seen, trans = enumerate_histories(init, depth, fresh)
            for h in hists:
                for ctl in ('P', 'S'):
                    for ts in ts_list:
                        for order in ('ctl-first', 'grow-first'):
                            if half and (order == 'ctl-first') != (
                                    fresh == (ts == 1)):
                                # quick tier: listing order tied to
                                # (daughters' mode, timestep)
                                continue
                            out.append((init_i, h, ctl, ts, order, fresh))
    return out
