"""World specs -> real engines; one traced execution per call.

A world spec is a plain Python literal (dicts, lists, tuples, numbers,
strings) so that it can be printed, hashed, pickled and replayed:

  {'processes': {name: probe-spec | nested},   # probe-spec has key 'cls'
   'steps':     {...}, 'flow': {...}, 'topology': {...}, 'state': {...},
   'engine':    {'emit_step': 1, 'global_time_precision': None, ...},
   'script':    [('run_for', 1.5, False), ('update', 2), ('end',)],
   'entry':     'parts' | 'composite' | 'store'}
"""
import copy
import signal

from vivarium.core.composer import Composite
from vivarium.core.store import Store

from vmc import probes
from vmc.probes import MonitoredEngine, build_tree


class Hang(Exception):
    pass


class Execution:
    def __init__(self):
        self.trace = []
        self.engine = None
        self.error = None        # (phase, call index, exception)
        self.calls = []          # (index, call, t_start, t_end | None)
        self.oracle = None

    @property
    def emitter(self):
        return self.engine.emitter if self.engine is not None else None


def _alarm(signum, frame):
    raise Hang('wall-clock watchdog')


def build_engine(spec, engine_cls=MonitoredEngine, **overrides):
    processes = build_tree(spec.get('processes', {}))
    steps = build_tree(spec.get('steps', {}))
    flow = copy.deepcopy(spec.get('flow', {}))
    topology = copy.deepcopy(spec.get('topology', {}))
    state = copy.deepcopy(spec.get('state', {}))
    kw = {'emitter': {'type': 'vmc_probe'}, 'display_info': False,
          'progress_bar': False}
    kw.update(spec.get('engine', {}))
    kw.update(overrides)
    entry = spec.get('entry', 'parts')
    if entry == 'composite':
        comp = Composite({'processes': processes, 'steps': steps,
                          'flow': flow, 'topology': topology,
                          'state': state})
        eng = engine_cls(composite=comp, **kw)
        eng._vmc_composite = comp
    else:
        eng = engine_cls(processes=processes, steps=steps, flow=flow,
                         topology=topology, initial_state=state, **kw)
    return eng


def execute(spec, oracle=None, guard_factory=None, watchdog=20.0,
            engine_cls=MonitoredEngine, after_call=None, **overrides):
    """Build the world and run its driver script under tracing."""
    ex = Execution()
    ex.oracle = oracle
    probes.TRACE = ex.trace
    probes.ORACLE = oracle
    probes.ENGINE = None
    old = signal.signal(signal.SIGALRM, _alarm)
    signal.setitimer(signal.ITIMER_REAL, watchdog)
    try:
        try:
            probes.log('build-begin')
            ex.engine = build_engine(spec, engine_cls, **overrides)
            probes.log('build-end', ex.engine.global_time)
        except Hang:
            raise
        except Exception as e:  # noqa
            ex.engine = probes.ENGINE
            ex.error = ('build', -1, e)
            return ex
        eng = ex.engine
        if guard_factory is not None:
            eng._vmc_guard = guard_factory(ex)
        for i, call in enumerate(spec.get('script', [])):
            t0 = eng.global_time
            probes.log('call-begin', i, call, t0)
            rec = [i, call, t0, None]
            ex.calls.append(rec)
            try:
                if call[0] == 'run_for':
                    eng.run_for(call[1], force_complete=bool(
                        call[2] if len(call) > 2 else False))
                elif call[0] == 'update':
                    eng.update(call[1])
                elif call[0] == 'end':
                    eng.end()
                else:
                    raise ValueError(call)
            except Hang:
                raise
            except Exception as e:  # noqa
                ex.error = ('call', i, e)
                probes.log('exception', i, type(e).__name__, str(e)[:300])
                return ex
            rec[3] = eng.global_time
            probes.log('call-end', i, call, eng.global_time)
            if after_call is not None:
                after_call(ex, i)
        return ex
    except Hang as e:
        ex.engine = probes.ENGINE
        ex.error = ('hang', len(ex.calls) - 1, e)
        probes.log('exception', len(ex.calls) - 1, 'Hang', str(e))
        return ex
    finally:
        signal.setitimer(signal.ITIMER_REAL, 0)
        signal.signal(signal.SIGALRM, old)
        probes.TRACE = None
        probes.ORACLE = None


def history_rows(ex):
    """[(time key, data without time, snapshot)] of the probe emitter."""
    if ex.engine is None or not hasattr(ex.engine, 'emitter'):
        return []
    rows = []
    for r in ex.engine.emitter.records:
        if r['table'] == 'history':
            d = dict(r['data'])
            t = d.pop('time', None)
            rows.append((t, d, r['snapshot']))
    return rows


def process_paths(engine):
    """{uid: path} for all probes currently in the hierarchy."""
    from vivarium.core.process import Process
    out = {}
    for path, node in engine.state.depth(
            filter_function=lambda x: isinstance(x.value, Process)):
        uid = getattr(node.value, 'uid', None)
        out[uid] = path
    return out
