"""Scheduling worlds (S-family / A-family), the ideal-timeline reference
model and the trace monitors shared by C01, C02, C03 and C12.

S-family: processes with constant timestep and constant condition.
A-family: probes answer polls from the explorer's choice oracle.
"""
import collections
import itertools

from vmc import framework as fw
from vmc import worlds

T_ALL = [0.5, 0.75, 1, 1.25, 2, 3]
D_CALLS = [('run_for', 1, False), ('run_for', 1.5, False),
           ('run_for', 2.5, False), ('run_for', 1, True),
           ('run_for', 2.5, True)]
F_CALLS = [('update', 2), ('update', 3.25), ('run_for', 1.5, True)]

TOK = {'_default': (), '_updater': 'vmc_collect', '_emit': True}
NUM = {'_default': 0, '_emit': True}


def scripts(max_prefix, finals=F_CALLS, nonfinal=D_CALLS):
    out = []
    for k in range(max_prefix + 1):
        for pre in itertools.product(nonfinal, repeat=k):
            for f in finals:
                out.append(list(pre) + [f])
    return out


def probe_spec(pid, ts, cond, nested=False, **extra):
    schema = {
        'priv': {'tok': dict(TOK), 'num': dict(NUM), 'clk': dict(NUM)},
        'shared': {'tok': dict(TOK), 'num': dict(NUM)},
    }
    spec = {'cls': 'P', 'pid': pid, 'schema': schema, 'ts': ts,
            'cond': cond,
            'update': {'priv': {'tok': '$tok', 'num': 1, 'clk': '$ts'},
                       'shared': {'tok': '$tok', 'num': 1}}}
    spec.update(extra)
    return spec


def s_world(procs, script, nested=False, engine=None):
    """procs: list of (ts, cond)."""
    processes, topology = {}, {}
    for i, (ts, cond) in enumerate(procs):
        pid = f'p{i}'
        if nested and i % 2 == 1:
            processes.setdefault('comp', {})[pid] = probe_spec(pid, ts, cond)
            topology.setdefault('comp', {})[pid] = {
                'priv': (f's{i}',), 'shared': ('..', 'shared')}
        else:
            processes[pid] = probe_spec(pid, ts, cond)
            topology[pid] = {'priv': (f's{i}',), 'shared': ('shared',)}
    return {'processes': processes, 'topology': topology,
            'script': list(script), 'engine': dict(engine or {}),
            'family': 'S', 'nested': nested,
            'procs': [tuple(p) for p in procs]}


def priv_path(spec, i):
    if spec.get('nested') and i % 2 == 1:
        return ('comp', f's{i}')
    return (f's{i}',)


# ----------------------------------------------------------------------
# reference model: the ideal timeline

def call_windows(script, t0=0):
    """[(start, end, force)] of the driver calls (exact dyadic floats)."""
    out, s = [], t0
    for call in script:
        if call[0] == 'run_for':
            e, force = s + call[1], bool(call[2]) if len(call) > 2 else False
        elif call[0] == 'update':
            e, force = s + call[1], True
        else:
            continue
        out.append((s, e, force))
        s = e
    return out


def ideal_timeline(procs, script, t0=0, precision=None):
    """For constant (ts, cond) processes: {i: [(apply time, timestep)]}.

    Interval k of a process is [e_k, e_k + ts]; it is simulated by the
    first call whose window reaches e_k + ts, or cut at the end of a
    forcing call.  Says nothing about when a process is invoked.
    """
    def rnd(x):
        return round(x, precision) if precision is not None else x
    out = {}
    for i, (ts, cond) in enumerate(procs):
        seq, e = [], t0
        if cond == 'always':
            for (s, E, force) in call_windows(script, t0):
                while True:
                    nxt = rnd(e + ts)
                    if nxt <= E:
                        seq.append((nxt, ts))
                        e = nxt
                    elif force and e < E:
                        seq.append((E, E - e))
                        e = E
                        break
                    else:
                        break
        out[i] = seq
    return out


# ----------------------------------------------------------------------
# trace parsing

class Parsed:
    def __init__(self, ex):
        self.invokes = collections.defaultdict(list)
        self.returns = {}
        self.applies = collections.defaultdict(list)
        self.polls = collections.defaultdict(list)
        self.conds = collections.defaultdict(list)
        self.clocks = []
        self.events = ex.trace
        call = -1
        for idx, ev in enumerate(ex.trace):
            k = ev[0]
            if k == 'call-begin':
                call = ev[1]
            elif k == 'invoke':
                _, uid, pid, n, t, ts, states, is_step = ev
                self.invokes[pid].append(
                    {'n': n, 't': t, 'ts': ts, 'states': states,
                     'idx': idx, 'call': call, 'uid': uid,
                     'step': is_step})
            elif k == 'return':
                self.returns[(ev[2], ev[3])] = ev[5]
            elif k == 'apply':
                self.applies[ev[1]].append((ev[2], idx))
            elif k == 'poll':
                self.polls[ev[2]].append(
                    {'k': ev[3], 't': ev[4], 'ts': ev[5], 'idx': idx,
                     'call': call, 'front': ev[7] if len(ev) > 7 else None})
            elif k == 'cond':
                self.conds[ev[2]].append(
                    {'k': ev[3], 't': ev[4], 'ts': ev[5], 'res': ev[6],
                     'idx': idx, 'call': call})
            elif k == 'clock':
                self.clocks.append(
                    {'old': ev[1], 'new': ev[2], 'sig': ev[3],
                     'idx': idx, 'call': call})


def crash_fp(ex):
    phase, i, e = ex.error
    return f'{phase}:{type(e).__name__}:{str(e)[:60]}'


def record_states(acc, parsed):
    """Distinct scheduler states / transitions seen in this execution."""
    prev = None
    for c in parsed.clocks:
        if c['sig'] is None:
            continue
        st = (c['sig'],)
        acc.state(st)
        if prev is not None:
            acc.transition(prev, st)
        prev = st


# ----------------------------------------------------------------------
# monitors (S-family): each returns a list of violations

def mon_c01_static(spec, ex, p):
    out = []
    V = lambda rule, fp, msg: out.append(  # noqa
        fw.violation(rule, fp, msg, spec))
    if ex.error:
        V('C01.crash', crash_fp(ex), f'unexpected {ex.error[2]!r}')
        return out
    procs = spec['procs']
    t0 = spec.get('engine', {}).get('initial_global_time', 0)
    ref = ideal_timeline(procs, spec['script'], t0)
    due = {}                       # token -> reference application time
    for i, (ts, cond) in enumerate(procs):
        pid = f'p{i}'
        inv = sorted(p.invokes.get(pid, []), key=lambda r: r['n'])
        if cond == 'never':
            if inv:
                V('C01.quiet', 'invoked-with-false-condition',
                  f'{pid} has a false update condition but was invoked '
                  f'{len(inv)} times')
            continue
        R = ref[i]
        if len(inv) != len(R):
            kind = 'fewer' if len(inv) < len(R) else 'more'
            V('C01.count', f'{kind}-invocations',
              f'{pid}: {len(inv)} invocations, ideal timeline has '
              f'{len(R)} intervals {R}')
        last = None
        for k, rec in enumerate(inv):
            tok = (pid, rec['n'])
            ap = p.applies.get(tok, [])
            want = R[k][0] if k < len(R) else None
            due[tok] = want
            times = sorted(t for t, _ in ap)
            if len(ap) == 0:
                V('C01.lost', 'never-applied',
                  f'update {tok} returned at t={rec["t"]} was never applied')
                continue
            if len(ap) != 2:
                V('C01.multiplicity',
                  'applied-%d-times-to-2-variables' % len(ap),
                  f'update {tok} was applied {len(ap)} times to its 2 '
                  f'variables (times {times})')
            if k < len(R) and rec['ts'] != R[k][1]:
                V('C01.interval', 'computed-for-another-interval',
                  f'update {tok} was computed for timestep {rec["ts"]} but '
                  f'the interval that ends at its application time has '
                  f'length {R[k][1]}')
            if want is not None and any(t != want for t in times):
                kind = 'late' if max(times) > want else 'early'
                V('C01.time', kind,
                  f'update {tok} (invoked t={rec["t"]}, ts={rec["ts"]}) '
                  f'applied at {times}, interval ends at {want}')
            first_idx = min(ix for _, ix in ap)
            if last is not None and first_idx < last:
                V('C01.order', 'fifo', f'{tok} applied before predecessor')
            last = max(ix for _, ix in ap)
    # row content: tokens whose interval ended at or before the row time
    for (T, data, snap) in worlds.history_rows(ex):
        exp_shared = sorted(t for t, d in due.items()
                            if d is not None and d <= T)
        got = data.get('shared', {})
        if sorted(got.get('tok', ())) != exp_shared or \
                got.get('num') != len(exp_shared):
            V('C01.row', 'shared-variable',
              f'row t={T}: shared tok={got.get("tok")} num={got.get("num")}'
              f' expected tokens {exp_shared}')
            break
        bad = False
        for i, (ts, cond) in enumerate(procs):
            node = data
            for key in priv_path(spec, i):
                node = node.get(key, {}) if isinstance(node, dict) else {}
            exp = sorted(t for t in exp_shared if t[0] == f'p{i}')
            if sorted(node.get('tok', ())) != exp or \
                    node.get('num') != len(exp):
                V('C01.row', 'private-variable',
                  f'row t={T}: p{i} private {node} expected {exp}')
                bad = True
                break
        if bad:
            break
    return out


def mon_c02_static(spec, ex, p):
    out = []
    V = lambda rule, fp, msg: out.append(  # noqa
        fw.violation(rule, fp, msg, spec))
    if ex.error:
        V('C02.crash', crash_fp(ex), f'unexpected {ex.error[2]!r}')
        return out
    procs = spec['procs']
    t0 = spec.get('engine', {}).get('initial_global_time', 0)
    ref = ideal_timeline(procs, spec['script'], t0)
    final = ex.engine.global_time
    last_forcing = call_windows(spec['script'], t0)[-1][2]
    rows = worlds.history_rows(ex)
    for i, (ts, cond) in enumerate(procs):
        pid = f'p{i}'
        if cond != 'always':
            continue
        inv = sorted(p.invokes.get(pid, []), key=lambda r: r['n'])
        prev_end = t0
        total = 0
        k = -1
        for rec in inv:
            ap = p.applies.get((pid, rec['n']), [])
            if not ap:
                V('C02.pending', 'returned-update-never-applied',
                  f'{pid} update {rec["n"]} never applied')
                break
            end = ap[0][0]
            if rec['ts'] == 0 and end == prev_end:
                # a zero-length interval (zero-length forcing call on a
                # process that is already up to date): vacuous
                continue
            k += 1
            length = end - prev_end
            if rec['ts'] != length:
                cut = k < len(ref[i]) and ref[i][k][1] != ts
                V('C02.timestep',
                  'cut-interval' if cut else 'full-interval',
                  f'{pid} invocation {rec["n"]}: timestep argument '
                  f'{rec["ts"]} but the interval [{prev_end}, {end}] has '
                  f'length {length}')
                break
            if k < len(ref[i]) and rec['ts'] != ref[i][k][1]:
                V('C02.timestep', 'differs-from-ideal',
                  f'{pid} invocation {rec["n"]}: timestep {rec["ts"]}, '
                  f'ideal {ref[i][k]}')
                break
            if rec['t'] > end:
                V('C02.overlap', 'invoked-after-interval-end',
                  f'{pid} invocation {rec["n"]} at {rec["t"]} > end {end}')
            total += rec['ts']
            prev_end = end
        else:
            if k + 1 != len(ref[i]):
                V('C02.coverage', 'intervals-do-not-cover-elapsed-time',
                  f'{pid}: {k + 1} non-empty intervals simulated, the '
                  f'ideal timeline has {len(ref[i])}: {ref[i]}')
            if last_forcing:
                if total != final - t0:
                    V('C02.sum', 'timesteps-do-not-sum-to-elapsed',
                      f'{pid}: sum of timesteps {total} != elapsed '
                      f'{final - t0}')
                if rows:
                    # the state at the end of the run (the last emitted
                    # row is older than that when emit_step != 1)
                    node = worlds.probes.pure(ex.engine.state.get_value())
                    for key in priv_path(spec, i):
                        node = node.get(key, {})
                    if node.get('clk') != final - t0:
                        V('C02.clock_variable', 'clk-differs-from-elapsed',
                          f'{pid}: clock variable {node.get("clk")} != '
                          f'elapsed {final - t0}')
    # after update(): nothing pending (soft read of the front)
    if last_forcing and spec['script'][-1][0] == 'update':
        front = getattr(ex.engine, 'front', None)
        if isinstance(front, dict):
            for path, adv in front.items():
                if adv['time'] != final or adv['update']:
                    V('C02.front', 'front-not-at-global-time',
                      f'after update(): front[{path}] = {adv["time"]}, '
                      f'update pending={bool(adv["update"])}, global time '
                      f'{final}')
                    break
    return out


def mon_c03_clock(spec, ex, p, precision=None):
    """Clock invariants over the clock-write events of one execution."""
    out = []
    V = lambda rule, fp, msg: out.append(  # noqa
        fw.violation(rule, fp, msg, spec))
    if ex.error:
        phase, i, e = ex.error
        name = type(e).__name__
        if name == 'NonTermination':
            V('C03.nontermination', str(e.args[1]) if len(e.args) > 1
              else 'lasso', f'call {i} {spec["script"][i]}: {e.args[0]}')
        elif name == 'Hang':
            V('C03.nontermination', 'watchdog',
              f'call {i} did not return within the watchdog')
        else:
            V('C03.crash', crash_fp(ex), f'unexpected {e!r}')
        return out
    calls = {c[0]: c for c in ex.calls}
    prev = None
    for c in p.clocks:
        if c['call'] < 0:
            prev = c['new']
            continue
        i, call, start, end_seen = calls[c['call']]
        end = start + call[1]
        if prev is not None and c['new'] < prev:
            V('C03.monotone', 'clock-decreased',
              f'call {i} {call}: clock went from {prev} to {c["new"]}')
            break
        if c['new'] > end:
            V('C03.overshoot', 'clock-passed-end',
              f'call {i} {call}: clock {c["new"]} > end {end}')
            break
        prev = c['new']
    for (i, call, start, got) in ex.calls:
        if call[0] in ('run_for', 'update') and got != start + call[1]:
            V('C03.landing', 'did-not-land-on-end',
              f'call {i} {call} from {start} returned at {got}, expected '
              f'{start + call[1]}')
            break
    return out


class NonTermination(Exception):
    pass


def lasso_guard(ex, repeats=3, cap=400):
    """Guard for MonitoredEngine: detect a scheduler loop that makes no
    progress.  Three consecutive iterations with identical clock, identical
    front and no invoke/apply in between prove (deterministic engine, fixed
    answers) that the loop never exits."""
    st = {'last': None, 'count': 0, 'mark': 0, 'writes': 0, 'call': None}

    def guard(old, new):
        trace = ex.trace
        eng = ex.engine
        if eng is None:
            return
        call = len(ex.calls)
        if call != st['call']:
            st.update(call=call, writes=0, last=None, count=0)
        st['writes'] += 1
        progressed = any(ev[0] in ('invoke', 'apply', 'return')
                         for ev in trace[st['mark']:])
        st['mark'] = len(trace)
        sig = trace[-1][3] if trace and trace[-1][0] == 'clock' else None
        key = (new, sig)
        if key == st['last'] and not progressed and old == new:
            st['count'] += 1
        else:
            st['count'] = 1
        st['last'] = key
        if st['count'] >= repeats:
            raise NonTermination(
                f'scheduler state repeats without progress: clock={new} '
                f'front={sig}', 'lasso')
        if st['writes'] > cap:
            raise NonTermination(
                f'more than {cap} scheduler iterations in one call', 'cap')
    return guard


def mon_c01_rows(spec, ex):
    """Rows-only C01 monitor (usable when probes run in worker processes
    and leave no trace): at every emitted time the token variables hold
    exactly the updates whose ideal interval ended by then."""
    out = []
    V = lambda rule, fp, msg: out.append(  # noqa
        fw.violation(rule, fp, msg, spec))
    if ex.error:
        V('C01.crash', crash_fp(ex), f'unexpected {ex.error[2]!r}')
        return out
    procs = spec['procs']
    ref = ideal_timeline(procs, spec['script'], 0)
    due = {}
    for i, seq in ref.items():
        for k, (a, ts) in enumerate(seq):
            due[(f'p{i}', k)] = a
    for (T, data, snap) in worlds.history_rows(ex):
        exp = sorted(t for t, a in due.items() if a <= T)
        got = data.get('shared', {})
        toks = sorted(tuple(t) for t in got.get('tok', ()))
        if toks != exp or got.get('num') != len(exp):
            kind = 'false-condition-contributed' if any(
                procs[int(t[0][1:])][1] == 'never' for t in toks) \
                else 'shared-variable'
            V('C01.row', kind,
              f'row t={T}: shared tok={toks} num={got.get("num")} '
              f'expected {exp} (parallel={spec.get("parallel")})')
            break
        for i in range(len(procs)):
            node = data
            for key in priv_path(spec, i):
                node = node.get(key, {}) if isinstance(node, dict) else {}
            e_i = [t for t in exp if t[0] == f'p{i}']
            if sorted(tuple(t) for t in node.get('tok', ())) != e_i:
                V('C01.row', 'private-variable',
                  f'row t={T}: p{i} private {node} expected {e_i}')
                return out
            if e_i and node.get('clk') != sum(
                    ts for (a, ts) in ref[i] if a <= T):
                V('C01.interval', 'clock-variable-differs',
                  f'row t={T}: p{i} clk={node.get("clk")} expected '
                  f'{sum(ts for (a, ts) in ref[i] if a <= T)}')
                return out
    return out
