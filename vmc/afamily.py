"""A-family worlds: probes answer every poll from the choice oracle
(explorer D), and gated worlds (state-dependent ``_condition``)."""
import itertools

from vmc import framework as fw
from vmc import sched, worlds, probes
from vmc.explorer import Oracle, explore

TS_MENU = [1, 0.5, 2, 3]

A_SCRIPTS_QUICK = [
    [('run_for', 2, False), ('run_for', 1.5, False), ('update', 2)],
    [('run_for', 1, False), ('run_for', 2.5, True), ('update', 3.25)],
    [('update', 3)],
]
A_SCRIPTS_THOROUGH = A_SCRIPTS_QUICK + [
    [('run_for', 1.5, False), ('run_for', 1, True), ('run_for', 2.5, False),
     ('update', 2)],
    [('run_for', 2.5, False), ('run_for', 2.5, False), ('update', 2)],
    [('update', 2), ('update', 3.25)],
]


def a_world(n, script, restricted, fast=False):
    """fast: the last process's default answer is timestep 0.25, so that
    it is polled (and may be quiet) at instants where the others do not
    fit before the end of a call."""
    processes, topology = {}, {}
    # the unrestricted (C03) menu also offers a timestep shorter than any
    # lag a run_for boundary can leave (0.25 < 0.5)
    menu = list(TS_MENU) if restricted else list(TS_MENU) + [0.25]
    for i in range(n):
        pid = f'p{i}'
        processes[pid] = sched.probe_spec(
            pid, 'oracle', 'oracle',
            ts_menu=[0.25, 1, 0.5, 2] if fast and i == n - 1 else menu)
        topology[pid] = {'priv': (f's{i}',), 'shared': ('shared',)}
    return {'processes': processes, 'topology': topology,
            'script': list(script), 'family': 'A', 'n': n,
            'restricted': restricted, 'fast': fast}


def gated_world(ts_gated, ts_toggler, pattern, script, in_defaults=False):
    """p0 has _condition on ('gate','on') - given to the constructor, or
    declared in the class defaults; p1 sets the gate by script."""
    p0 = sched.probe_spec('p0', ts_gated, 'path')
    if in_defaults:
        p0['cls'] = 'PC'
    else:
        p0['_condition'] = ('gate', 'on')
    p0['schema']['gate'] = {
        'on': {'_default': True, '_updater': 'set', '_emit': True}}
    upd = {'$n': {k: {'gate': {'on': v}, 'priv': {'tok': '$tok', 'num': 1,
                                                  'clk': '$ts'},
                      'shared': {'tok': '$tok', 'num': 1}}
                  for k, v in enumerate(pattern)},
           '$else': {'priv': {'tok': '$tok', 'num': 1, 'clk': '$ts'},
                     'shared': {'tok': '$tok', 'num': 1}}}
    p1 = sched.probe_spec('p1', ts_toggler, 'always')
    p1['schema']['gate'] = {
        'on': {'_default': True, '_updater': 'set', '_emit': True}}
    p1['update'] = upd
    return {'processes': {'p0': p0, 'p1': p1},
            'topology': {
                'p0': {'priv': ('s0',), 'shared': ('shared',),
                       'gate': ('gate',)},
                'p1': {'priv': ('s1',), 'shared': ('shared',),
                       'gate': ('gate',)}},
            'script': list(script), 'family': 'G',
            'gated': (ts_gated, ts_toggler, tuple(pattern)),
            'in_defaults': in_defaults}


def a_jobs(ctx, restricted=True):
    jobs = []
    if ctx.quick:
        for n, bound in ((1, 2), (2, 2)):
            for sc in A_SCRIPTS_QUICK:
                jobs.append(('A', n, sc, bound, restricted))
        for sc in A_SCRIPTS_QUICK[:2]:
            jobs.append(('A', 2, sc, 1, restricted, 'fast'))
        pats = list(itertools.product([True, False], repeat=3))
        for tg, tt in itertools.product([0.5, 1, 2], [0.5, 1]):
            for pat in pats:
                for sc in ([('update', 3)],
                           [('run_for', 1.5, False), ('update', 2)]):
                    jobs.append(('G', tg, tt, pat, sc))
                jobs.append(('G', tg, tt, pat, [('update', 3)], True))
    else:
        for n, bound in ((1, 3), (2, 3)):
            for sc in A_SCRIPTS_THOROUGH:
                jobs.append(('A', n, sc, bound, restricted))
        for sc in A_SCRIPTS_THOROUGH:
            jobs.append(('A', 2, sc, 2, restricted, 'fast'))
        pats = list(itertools.product([True, False], repeat=4))
        for tg, tt in itertools.product([0.5, 0.75, 1, 2, 3],
                                        [0.5, 1, 1.25]):
            for pat in pats:
                for sc in sched.scripts(1):
                    jobs.append(('G', tg, tt, pat, sc))
                    if len(sc) == 1:
                        jobs.append(('G', tg, tt, pat, sc, True))
    # split A jobs by first deviation so that they parallelise
    out = []
    for job in jobs:
        if job[0] != 'A':
            out.append(job)
            continue
        fast = len(job) > 5
        job = job[:5]
        _, n, sc, bound, restricted = job
        spec = a_world(n, sc, restricted, fast)
        job = job + (fast,)
        oracle = Oracle([], menu_filter=k1_filter if restricted else None)
        worlds.execute(spec, oracle=oracle, guard_factory=sched.lasso_guard)
        out.append(job + ((), False))
        if bound >= 1:
            choices = oracle.choices
            for i, (_, menu, _) in enumerate(oracle.points):
                for alt in range(1, len(menu)):
                    out.append(job + (tuple(choices[:i] + [alt]), True))
    return out


def k1_filter(key, menu, probe):
    """Drop timestep answers of a process that is behind the clock
    (deferred across a run_for boundary) whose interval would end at or
    before the current clock (last interval end + ts <= global time): the
    trigger of known finding K1 (with '<' the clock steps back, with '=='
    a second batch and a second row appear at the same time)."""
    if key[0] != 'ts':
        return menu
    ft = probes.front_time(probe)
    now = probes.now()
    if ft is None or now is None:
        return menu
    keep = [m for m in menu if ft + m > now]
    return keep or [max(menu)]


def run_one_a(spec, prefix, acc, monitors):
    flt = k1_filter if spec['restricted'] else None
    oracle = Oracle(prefix, menu_filter=flt)
    ex = worlds.execute(spec, oracle=oracle,
                        guard_factory=sched.lasso_guard)
    p = sched.Parsed(ex)
    sched.record_states(acc, p)
    case = dict(spec)
    case['choices'] = oracle.choices
    viols = []
    if 'c01' in monitors:
        viols += mon_c01_adaptive(case, ex, p)
    if 'c02' in monitors:
        viols += mon_c02_adaptive(case, ex, p)
    if 'c03' in monitors:
        viols += mon_c03_adaptive(case, ex, p)
    n_tok = sum(len(v) for v in p.invokes.values())
    n_false = sum(1 for cs in p.conds.values() for c in cs if not c['res'])
    acc.case(key=(spec['family'], spec.get('n'), spec['script'],
                  tuple(oracle.choices), spec.get('gated'),
                  spec.get('in_defaults')),
             outcome=f'{spec["family"]}:tokens={min(n_tok, 12)}:'
                     f'false={min(n_false, 6)}:'
                     f'err={type(ex.error[2]).__name__ if ex.error else 0}',
             nontrivial=n_tok > 0 or n_false > 0)
    acc.maximum('deviations', sum(1 for c in oracle.choices if c))
    acc.maximum('choice_points', len(oracle.points))
    for v in viols:
        acc.violate(v)
    if len(acc.samples) < 1 and sum(1 for c in oracle.choices if c) == 2:
        acc.sample({'family': spec['family'], 'n': spec.get('n'),
                    'script': spec['script'],
                    'answers': [(k, m[c]) for k, m, c in oracle.points]})
    return oracle


def run_a(job, acc, monitors):
    if job[0] == 'A':
        _, n, script, bound, restricted, fast, prefix, expand = job
        spec = a_world(n, script, restricted, fast)
        cnt = explore(lambda pre: run_one_a(spec, pre, acc, monitors), bound,
                      prefix=list(prefix), expand_root=expand)
        acc.counters['A_executions'] += cnt
        acc.maximum('completed_deviation_bound', bound)
    else:
        _, tg, tt, pat, script = job[:5]
        spec = gated_world(tg, tt, pat, script,
                           in_defaults=len(job) > 5 and job[5])
        spec['restricted'] = False
        run_one_a(spec, [], acc, monitors)
        acc.counters['G_executions'] += 1


def replay(case, acc, monitors):
    spec = {k: v for k, v in case.items() if k != 'choices'}
    spec.setdefault('restricted', False)
    run_one_a(spec, case.get('choices', []), acc, monitors)


# ----------------------------------------------------------------------
# monitors for adaptive / gated executions (invariants over the trace)

def _forcing_ends(ex, spec):
    ends = set()
    for (i, call, start, got) in ex.calls:
        if call[0] == 'update' or (call[0] == 'run_for' and len(call) > 2
                                   and call[2]):
            ends.add(start + call[1])
    return ends


def mon_c01_adaptive(spec, ex, p):
    out = []
    V = lambda rule, fp, msg: out.append(  # noqa
        fw.violation(rule, fp, msg, spec))
    if ex.error:
        V('C01.crash', sched.crash_fp(ex), f'unexpected {ex.error[2]!r}')
        return out
    # a false condition contributes nothing
    for pid, conds in p.conds.items():
        inv_idx = [r['idx'] for r in p.invokes.get(pid, [])]
        polls = [r['idx'] for r in p.polls.get(pid, [])]
        for c in conds:
            nxt_poll = min([x for x in polls if x > c['idx']],
                           default=len(p.events))
            if not c['res'] and any(c['idx'] < x < nxt_poll
                                    for x in inv_idx):
                V('C01.quiet', 'invoked-with-false-condition',
                  f'{pid} invoked although its condition was false at '
                  f't={c["t"]}')
            if spec.get('family') == 'G' and pid == 'p0':
                states = next((ev[7] for ev in p.events[c['idx']:c['idx'] + 1]
                               if ev[0] == 'cond'), None)
                if states is not None and \
                        bool(states['gate']['on']) != bool(c['res']):
                    V('C01.condition', 'condition-not-from-current-state',
                      f'{pid}: condition {c["res"]} but gate variable is '
                      f'{states["gate"]["on"]}')
    last_forcing = spec['script'][-1][0] == 'update' or \
        bool(spec['script'][-1][2:] and spec['script'][-1][2])
    applied_at = {}
    for pid, inv in p.invokes.items():
        prev_end = None
        last_idx = None
        for rec in sorted(inv, key=lambda r: r['n']):
            tok = (pid, rec['n'])
            ap = p.applies.get(tok, [])
            if not ap:
                if last_forcing:
                    V('C01.lost', 'never-applied',
                      f'update {tok} returned at t={rec["t"]} with timestep '
                      f'{rec["ts"]} was never applied')
                continue
            times = sorted(t for t, _ in ap)
            if len(ap) != 2:
                V('C01.multiplicity',
                  'applied-%d-times-to-2-variables' % len(ap),
                  f'update {tok} applied {len(ap)} times (times {times})')
            a = times[0]
            applied_at[tok] = a
            if times[-1] != a:
                V('C01.time', 'split-application',
                  f'update {tok} applied at different times {times}')
            start = a - rec['ts']
            if a < rec['t']:
                V('C01.time', 'early',
                  f'update {tok} invoked at {rec["t"]} applied at {a}')
            elif start > rec['t']:
                V('C01.time', 'late',
                  f'update {tok} invoked at {rec["t"]} with timestep '
                  f'{rec["ts"]} applied at {a} (> invocation + timestep)')
            if prev_end is not None and start < prev_end:
                V('C01.time', 'overlap',
                  f'update {tok}: interval [{start}, {a}] overlaps the '
                  f'previous one ending at {prev_end}')
            first_idx = min(ix for _, ix in ap)
            if last_idx is not None and first_idx < last_idx:
                V('C01.order', 'fifo', f'{tok} applied before predecessor')
            last_idx = max(ix for _, ix in ap)
            prev_end = a
    for (T, data, snap) in worlds.history_rows(ex):
        exp = sorted(t for t, a in applied_at.items() if a <= T)
        got = data.get('shared', {})
        if sorted(got.get('tok', ())) != exp or got.get('num') != len(exp):
            V('C01.row', 'shared-variable',
              f'row t={T}: shared tok={got.get("tok")} num={got.get("num")}'
              f' expected {exp}')
            break
    return out


def mon_c02_adaptive(spec, ex, p):
    out = []
    V = lambda rule, fp, msg: out.append(  # noqa
        fw.violation(rule, fp, msg, spec))
    if ex.error:
        V('C02.crash', sched.crash_fp(ex), f'unexpected {ex.error[2]!r}')
        return out
    ends = _forcing_ends(ex, spec)
    final = ex.engine.global_time
    last_forcing = spec['script'][-1][0] == 'update' or \
        bool(spec['script'][-1][2:] and spec['script'][-1][2])
    for pid, inv in p.invokes.items():
        never_quiet = all(c['res'] for c in p.conds.get(pid, []))
        polls = p.polls.get(pid, [])
        prev_end = 0
        total = 0
        ok = True
        for rec in sorted(inv, key=lambda r: r['n']):
            ap = p.applies.get((pid, rec['n']), [])
            if not ap:
                ok = False
                if last_forcing:
                    V('C02.pending', 'returned-update-never-applied',
                      f'{pid} update {rec["n"]} never applied')
                break
            a = ap[0][0]
            asked = [q['ts'] for q in polls if q['idx'] < rec['idx']]
            asked = asked[-1] if asked else None
            if never_quiet and rec['ts'] != a - prev_end:
                V('C02.timestep', 'not-interval-length',
                  f'{pid} invocation {rec["n"]}: timestep {rec["ts"]} but '
                  f'interval [{prev_end}, {a}]')
                ok = False
                break
            if a - rec['ts'] < prev_end:
                V('C02.overlap', 'intervals-overlap',
                  f'{pid} invocation {rec["n"]}: [{a - rec["ts"]}, {a}] '
                  f'overlaps previous end {prev_end}')
            if asked is not None and rec['ts'] != asked and a not in ends:
                V('C02.timestep', 'differs-from-request-without-cut',
                  f'{pid} invocation {rec["n"]}: requested {asked}, got '
                  f'{rec["ts"]}, interval ends at {a} which is not the end '
                  f'of a forcing call')
            if asked is not None and rec['ts'] > asked:
                V('C02.timestep', 'longer-than-requested',
                  f'{pid} invocation {rec["n"]}: requested {asked}, got '
                  f'{rec["ts"]}')
            total += rec['ts']
            prev_end = a
        if ok and never_quiet and last_forcing and total != final:
            V('C02.sum', 'timesteps-do-not-sum-to-elapsed',
              f'{pid}: sum of timesteps {total} != elapsed {final}')
    if last_forcing and spec['script'][-1][0] == 'update':
        front = getattr(ex.engine, 'front', None)
        if isinstance(front, dict):
            for path, adv in front.items():
                if adv['time'] != final or adv['update']:
                    V('C02.front', 'front-not-at-global-time',
                      f'after update(): front[{path}] = {adv["time"]}, '
                      f'pending={bool(adv["update"])}, global {final}')
                    break
    return out


def k1_triggers(p, ex=None):
    """Polls that form the trigger of known finding K1: the process is
    behind the clock BECAUSE ITS PREVIOUS POLL WAS DEFERRED (it answered a
    timestep that did not fit before the end of that call and was not
    invoked; the clock then moved on, within the same call after another
    process's batch or across the call boundary), and it now answers a
    timestep that ends before the clock.
    A process that lags for any other reason is not K1."""
    ends = {}
    if ex is not None:
        for (i, call, start, got) in ex.calls:
            if call[0] in ('run_for', 'update'):
                ends[i] = start + call[1]
    trig = []
    clock_idx = sorted(c['idx'] for c in p.clocks)
    for pid, polls in p.polls.items():
        inv_idx = sorted(r['idx'] for r in p.invokes.get(pid, []))
        cond_idx = sorted(c['idx'] for c in p.conds.get(pid, []))
        for j, q in enumerate(polls):
            if q['front'] is None or q['t'] is None or \
                    not q['front'] + q['ts'] < q['t']:
                continue
            if j == 0:
                continue
            prev = polls[j - 1]
            deferred = (
                prev['front'] == q['front']
                and prev['call'] in ends
                and prev['front'] + prev['ts'] > ends[prev['call']]
                and not any(prev['idx'] < x < q['idx'] for x in cond_idx)
                # ... and the scheduler asked again in the very next pass
                # (a process at or behind the clock is polled in EVERY
                # pass; one that was passed over for several passes lags
                # for another reason than K1)
                and sum(1 for x in clock_idx
                        if prev['idx'] < x < q['idx']) <= 1)
            if deferred:
                trig.append(q)
    return sorted(trig, key=lambda q: q['idx'])


def mon_c03_adaptive(spec, ex, p):
    """Clock invariants; executions containing the K1 trigger are judged up
    to the trigger, and the listed symptom is reported under K1's
    fingerprint."""
    trig = k1_triggers(p, ex)
    if not trig:
        return sched.mon_c03_clock(spec, ex, p)
    out = []
    first = trig[0]['idx']
    calls = {c[0]: c for c in ex.calls}
    prev = None
    for c in p.clocks:
        if c['call'] < 0:
            prev = c['new']
            continue
        i, call, start, _ = calls[c['call']]
        end = start + call[1]
        if prev is not None and c['new'] < prev:
            if c['idx'] > first:
                out.append(fw.violation(
                    'C03.monotone',
                    'clock-decreased-after-stale-short-timestep',
                    f'call {i} {call}: a process {trig[0]["t"] - trig[0]["front"]} behind the clock '
                    f'asked for timestep {trig[0]["ts"]}; clock went from '
                    f'{prev} to {c["new"]}', spec))
            else:
                out.append(fw.violation(
                    'C03.monotone', 'clock-decreased',
                    f'call {i} {call}: clock {prev} -> {c["new"]}', spec))
            return out
        if c['new'] > end and c['idx'] < first:
            out.append(fw.violation(
                'C03.overshoot', 'clock-passed-end',
                f'call {i} {call}: clock {c["new"]} > end {end}', spec))
            return out
        prev = c['new']
    if ex.error and type(ex.error[2]).__name__ in ('NonTermination', 'Hang'):
        out.append(fw.violation(
            'C03.nontermination', 'after-k1-trigger',
            f'{ex.error[2]}', spec))
    return out


# ----------------------------------------------------------------------
# Explorer B on poll answers: explicit-state search over ALL answer
# sequences (not deviation-bounded) with scheduler-state merging

class CapturingOracle(Oracle):
    """Replays a prefix, answers the default afterwards, and records the
    scheduler state at the first choice point after the prefix."""

    def __init__(self, prefix, menu_filter=None):
        super().__init__(prefix, menu_filter)
        self.cut_state = None
        self.cut_calls = None

    def choose(self, key, menu, probe=None):
        if len(self.points) == len(self.prefix) and self.cut_state is None:
            m = list(menu)
            if self.menu_filter is not None:
                m = self.menu_filter(key, m, probe) or m[:1]
            eng = probes.ENGINE
            t = probes.now()
            sig = probes.front_signature(eng, t) if eng is not None else None
            self.cut_state = (key[0], key[1], sig, len(m), t)
        return super().choose(key, menu, probe)


def bfs_answers(n, script, restricted, fast, max_points, acc, monitors,
                max_states=None):
    """Breadth-first search over answer prefixes (explorer B on the poll
    seam).  Every prefix is one transition: the real engine is run on it
    (default answers after the prefix) and the whole execution is judged.
    The state reached by a prefix is the scheduler state at the first
    choice point after it: (call index, time left in the call, who is asked
    what, the front relative to the clock).  Only prefixes that reach a NEW
    state are extended (by every menu entry)."""
    spec = a_world(n, script, restricted, fast)
    flt = k1_filter if restricted else None
    windows = sched.call_windows(script, 0)
    seen = set()
    frontier = [()]
    n_exec = 0
    depth = 0
    while frontier and depth <= max_points:
        nxt = []
        for prefix in frontier:
            oracle = CapturingOracle(prefix, menu_filter=flt)
            ex = worlds.execute(spec, oracle=oracle,
                                guard_factory=sched.lasso_guard)
            _judge_bfs(spec, tuple(oracle.choices), ex, acc, monitors)
            n_exec += 1
            cut = oracle.cut_state
            if cut is None:
                continue          # the run ended before asking again
            t = cut[4]
            call = next((i for i, (s0, e0, f0) in enumerate(windows)
                         if s0 <= t < e0 or (t == e0 and i == len(
                             windows) - 1)), len(windows) - 1)
            # a choice at a call boundary belongs to the later call
            for i, (s0, e0, f0) in enumerate(windows):
                if t == s0:
                    call = i
            state = (call, round(windows[call][1] - t, 9)) + cut[:4]
            if prefix:
                acc.transition(prefix[:-1], state, prefix[-1])
            if state in seen:
                continue
            seen.add(state)
            acc.state(state)
            if max_states is not None and len(seen) >= max_states:
                acc.notes.add(f'state cap {max_states} hit in bfs_answers')
                return len(seen), n_exec
            for c in range(cut[3]):
                nxt.append(prefix + (c,))
        frontier = nxt
        depth += 1
    acc.maximum('bfs_answer_depth', depth - 1)
    if frontier:
        acc.notes.add('bfs_answers stopped at the depth bound with a '
                      'non-empty frontier')
    else:
        acc.counters['bfs_state_spaces_explored_completely'] += 1
    return len(seen), n_exec


def probes_now(ex):
    for ev in reversed(ex.trace):
        if ev[0] == 'clock':
            return ev[2]
    return 0


def _judge_bfs(spec, choices, ex, acc, monitors):
    p = sched.Parsed(ex)
    case = dict(spec)
    case['choices'] = list(choices)
    viols = []
    if 'c01' in monitors:
        viols += mon_c01_adaptive(case, ex, p)
    if 'c02' in monitors:
        viols += mon_c02_adaptive(case, ex, p)
    if 'c03' in monitors:
        viols += mon_c03_adaptive(case, ex, p)
    acc.case(key=('BFS', spec.get('n'), spec['script'], tuple(choices)),
             outcome='BFS:' + ('err' if ex.error else 'ok'))
    for v in viols:
        acc.violate(v)


def run_bfs_job(job, acc, monitors):
    _, n, script, restricted, fast, max_points = job
    states, n_exec = bfs_answers(n, script, restricted, fast, max_points,
                                 acc, monitors)
    acc.counters['BFS_states'] += states
    acc.counters['BFS_executions'] += n_exec
