"""Reference resolver for topologies, written from the documentation
(doc/guides/composites.rst "Advanced Topologies"), independent of
Store.schema_topology (read side) and inverse_topology (write side).

A ports schema is a nested dict.  A *variable* is a dict that holds at
least one schema key (_default, _updater, _value, _emit, _properties,
_serializer, _units, _divider) - or is declared by the caller as a leaf.
``resolve`` returns, for every declared variable, the absolute hierarchy
path of the node it is wired to.
"""

SCHEMA_KEYS = {'_default', '_updater', '_value', '_properties', '_emit',
               '_serializer', '_units', '_divider', '_output'}
LEAF_KEYS = SCHEMA_KEYS - {'_divider', '_output'}


def normalize(path):
    """Lexical normal form of an absolute path; None if it climbs above
    the root."""
    out = []
    for seg in path:
        if seg == '..':
            if not out:
                return None
            out.pop()
        else:
            out.append(seg)
    return tuple(out)


def is_variable(schema):
    return isinstance(schema, dict) and bool(set(schema) & LEAF_KEYS)


def resolve(schema, topology, parent, children=None):
    """{variable path inside the schema: absolute node path}.

    schema:   ports schema (dict port -> sub-schema)
    topology: dict port -> tuple path | dict
    parent:   absolute path of the compartment that holds the process
    children: for glob ports, {absolute store path: [child keys]} naming
              the children that currently exist
    """
    out = {}
    _walk(schema, topology or {}, tuple(parent), (), out, children or {})
    return out


def _walk(schema, topo, base, prefix, out, children):
    for key, sub in schema.items():
        if key in SCHEMA_KEYS:
            continue
        if key == '*':
            t = topo.get('*', ()) if isinstance(topo, dict) else ()
            if isinstance(t, dict):
                store = normalize(base + tuple(t.get('_path', ())))
                rest = {k: v for k, v in t.items() if k != '_path'}
            else:
                store = normalize(base + tuple(t))
                rest = {}
            for child in children.get(store, []):
                if is_variable(sub):
                    out[prefix + (child,)] = store + (child,)
                else:
                    _walk(sub, rest, store + (child,), prefix + (child,),
                          out, children)
            continue
        t = topo.get(key, (key,)) if isinstance(topo, dict) else (key,)
        if is_variable(sub):
            # a variable is wired to the node its path names
            if isinstance(t, dict):
                t = t.get('_path', (key,))
            out[prefix + (key,)] = normalize(base + tuple(t))
        elif isinstance(t, dict):
            if '_path' in t:
                nbase = normalize(base + tuple(t['_path']))
                rest = {k: v for k, v in t.items() if k != '_path'}
            else:
                nbase, rest = base, t
            _walk(sub, rest, nbase, prefix + (key,), out, children)
        else:
            nbase = normalize(base + tuple(t))
            # below a plain path every key keeps its own name
            _walk(sub, {}, nbase, prefix + (key,), out, children)


def project(schema, topology, parent, snapshot, children=None):
    """The ``states`` a process must be shown: declared variables only,
    with the values found at the resolved nodes of ``snapshot``; glob ports
    list the current children; ``_output`` ports are empty."""
    if children is None:
        children = glob_children(schema, topology, parent, snapshot)
    mapping = resolve(schema, topology, parent, children)
    states = _skeleton(schema)
    for var_path, node_path in mapping.items():
        port_schema = schema.get(var_path[0], {})
        if isinstance(port_schema, dict) and port_schema.get('_output'):
            continue
        value = get_in(snapshot, node_path)
        _put(states, var_path, value)
    return states


def _skeleton(schema):
    out = {}
    for key, sub in schema.items():
        if key in SCHEMA_KEYS or key == '*':
            continue
        if isinstance(sub, dict) and sub.get('_output'):
            out[key] = {}
        elif is_variable(sub):
            continue
        elif isinstance(sub, dict):
            out[key] = _skeleton(sub)
    return out


def glob_children(schema, topology, parent, snapshot):
    """{store path: [children]} for every glob port, from the snapshot."""
    out = {}
    _globs(schema, topology or {}, tuple(parent), snapshot, out)
    return out


def _globs(schema, topo, base, snapshot, out, rests=None):
    """rests (optional): {store path: [renaming dictionary of each glob
    port over that store]}."""
    for key, sub in schema.items():
        if key in SCHEMA_KEYS:
            continue
        if key == '*':
            t = topo.get('*', ()) if isinstance(topo, dict) else ()
            if isinstance(t, dict):
                store = normalize(base + tuple(t.get('_path', ())))
                rest = {k: v for k, v in t.items() if k != '_path'}
            else:
                store = normalize(base + tuple(t))
                rest = {}
            if store is None:
                continue
            if rests is not None:
                rests.setdefault(store, []).append(rest)
            node = get_in(snapshot, store)
            kids = [k for k, v in node.items()
                    if v != '<process>'] if isinstance(node, dict) else []
            out[store] = kids
            continue
        if is_variable(sub) or not isinstance(sub, dict):
            continue
        t = topo.get(key, (key,)) if isinstance(topo, dict) else (key,)
        if isinstance(t, dict):
            nbase = normalize(base + tuple(t['_path'])) if '_path' in t \
                else base
            rest = {k: v for k, v in t.items() if k != '_path'}
            _globs(sub, rest, nbase, snapshot, out, rests)
        else:
            _globs(sub, {}, normalize(base + tuple(t)), snapshot, out,
                   rests)


def get_in(tree, path):
    for k in path:
        if not isinstance(tree, dict) or k not in tree:
            return None
        tree = tree[k]
    return tree


def _put(tree, path, value):
    for k in path[:-1]:
        tree = tree.setdefault(k, {})
    tree[path[-1]] = value
