"""Shared machinery of the vivarium-core model-checking harness.

* ``Acc``   - mergeable accumulator of what an exploration covered
* ``Ctx``   - per-run context: tier, seed, a parallel map over jobs
* evidence / violation / known-finding handling used by ``vmc.run``

Every property module ``vmc.props.Cxx`` exposes

    ID, LEVEL, RULE (str), ASSUMPTIONS (list of str)
    run(ctx) -> Acc
    replay(case) -> list of violation dicts   (re-run ONE case, no explorer)
"""
import collections
import hashlib
import json
import multiprocessing
import os
import random
import time

VERIF = os.path.dirname(os.path.dirname(os.path.abspath(__file__)))
NPROC = int(os.environ.get('VERIF_NPROC', '16'))
MAX_EXAMPLES = 3
MAX_SAMPLES = 5


def jdefault(o):
    """JSON fallback: render anything as a short string."""
    try:
        import numpy as np
        if isinstance(o, np.generic):
            return o.item()
        if isinstance(o, np.ndarray):
            return o.tolist()
    except Exception:  # pragma: no cover
        pass
    if isinstance(o, (set, frozenset)):
        return sorted(map(str, o))
    if isinstance(o, tuple):
        return list(o)
    return repr(o)[:200]


def jdump(o, **kw):
    return json.dumps(o, default=jdefault, sort_keys=True, **kw)


def h64(o):
    """Stable 64-bit hash of a JSON-renderable object."""
    if not isinstance(o, (str, bytes)):
        o = jdump(o)
    if isinstance(o, str):
        o = o.encode()
    return int.from_bytes(hashlib.blake2b(o, digest_size=8).digest(), 'big')


def violation(rule, fingerprint, message, case, **extra):
    v = {'rule': rule, 'fingerprint': fingerprint,
         'message': message, 'case': case}
    v.update(extra)
    return v


class Acc:
    """What an exploration covered; ``merge`` is associative/commutative."""

    def __init__(self):
        self.evaluations = 0
        self.keys = set()         # hashes of distinct non-trivial cases
        self.states = set()       # hashes of distinct states visited
        self.transitions = set()  # hashes of distinct transitions
        self.validated = 0        # traces compared with a reference model
        self.outcomes = collections.Counter()
        self.counters = collections.Counter()
        self.maxima = {}
        self.samples = []
        self.viol_count = collections.Counter()
        self.viol_examples = {}
        self.notes = set()

    # -- recording -------------------------------------------------------
    def case(self, key=None, outcome=None, nontrivial=True):
        self.evaluations += 1
        if key is not None and nontrivial:
            self.keys.add(h64(key))
        if outcome is None and isinstance(key, tuple) and key and \
                isinstance(key[0], str):
            outcome = key[0]
        if outcome is not None:
            self.outcomes[outcome] += 1

    def state(self, s):
        self.states.add(h64(s))

    def transition(self, a, b, label=None):
        self.transitions.add(h64((a, label, b)))

    def sample(self, s):
        if len(self.samples) < MAX_SAMPLES:
            self.samples.append(s)

    def maximum(self, name, value):
        if value > self.maxima.get(name, float('-inf')):
            self.maxima[name] = value

    def violate(self, v):
        k = (v['rule'], v['fingerprint'])
        self.viol_count[k] += 1
        ex = self.viol_examples.setdefault(k, [])
        v = dict(v)
        v['_size'] = len(jdump(v['case']))
        ex.append(v)
        ex.sort(key=lambda x: (x['_size'], jdump(x['case'])))
        del ex[MAX_EXAMPLES:]

    # -- merging ---------------------------------------------------------
    def merge(self, other):
        self.evaluations += other.evaluations
        self.keys |= other.keys
        self.states |= other.states
        self.transitions |= other.transitions
        self.validated += other.validated
        self.outcomes.update(other.outcomes)
        self.counters.update(other.counters)
        for k, v in other.maxima.items():
            self.maximum(k, v)
        self.notes |= other.notes
        for s in other.samples:
            self.sample(s)
        for k, n in other.viol_count.items():
            self.viol_count[k] += n
        for k, exs in other.viol_examples.items():
            ex = self.viol_examples.setdefault(k, [])
            ex.extend(exs)
            ex.sort(key=lambda x: (x['_size'], jdump(x['case'])))
            del ex[MAX_EXAMPLES:]
        return self


def _run_chunk(args):
    fn, chunk = args
    acc = Acc()
    for job in chunk:
        fn(job, acc)
    return acc


class Ctx:
    def __init__(self, tier, seed, nproc=NPROC):
        self.tier = tier
        self.seed = seed
        self.nproc = nproc
        self._pool = None
        self.t0 = time.time()

    @property
    def quick(self):
        return self.tier == 'quick'

    def pool(self):
        # ProcessPoolExecutor workers are not daemonic, so worlds may start
        # their own (vivarium ParallelProcess) child processes.
        if self._pool is None:
            import concurrent.futures as cf
            ctx = multiprocessing.get_context('fork')
            self._pool = cf.ProcessPoolExecutor(self.nproc, mp_context=ctx)
        return self._pool

    def close(self):
        if self._pool is not None:
            self._pool.shutdown(wait=True, cancel_futures=True)
            self._pool = None

    def map(self, fn, jobs, acc=None, chunk=None, serial=False):
        """Run ``fn(job, acc)`` for every job, in parallel, merge results.

        ``fn`` must be a module-level function.  The seed only permutes
        the order in which chunks are handed out.
        """
        acc = acc if acc is not None else Acc()
        jobs = list(jobs)
        if not jobs:
            return acc
        if chunk is None:
            chunk = max(1, min(200, len(jobs) // (self.nproc * 8) or 1))
        chunks = [jobs[i:i + chunk] for i in range(0, len(jobs), chunk)]
        random.Random(self.seed).shuffle(chunks)
        if serial or self.nproc <= 1 or len(chunks) == 1:
            for c in chunks:
                acc.merge(_run_chunk((fn, c)))
            return acc
        import concurrent.futures as cf
        pool = self.pool()
        futs = [pool.submit(_run_chunk, (fn, c)) for c in chunks]
        for fut in cf.as_completed(futs):
            acc.merge(fut.result())
        return acc


# ----------------------------------------------------------------------
# known findings

def load_known():
    path = os.path.join(VERIF, 'known_findings.json')
    if not os.path.exists(path):
        return {'findings': [], 'fixed': []}
    with open(path) as f:
        return json.load(f)


def known_for(prop):
    return [k for k in load_known().get('findings', [])
            if k['property'] == prop]


def classify(prop, acc):
    """Split observed violation classes into known findings and new."""
    known = {(k['rule'], k['fingerprint']): k for k in known_for(prop)}
    new, old = [], []
    for key in sorted(acc.viol_count):
        (old if key in known else new).append(key)
    return known, old, new


def write_replay(prop, v):
    d = os.path.join(VERIF, 'replays', prop)
    os.makedirs(d, exist_ok=True)
    body = {k: x for k, x in v.items() if k not in ('_size', 'case')}
    body['property'] = prop
    body['case_py'] = repr(v['case'])
    body['case'] = json.loads(jdump(v['case']))
    text = jdump(body, indent=1)
    digest = hashlib.blake2b(text.encode(), digest_size=6).hexdigest()
    path = os.path.join(d, digest + '.json')
    with open(path, 'w') as f:
        f.write(text)
    test = os.path.join(d, digest + '_test.py')
    with open(test, 'w') as f:
        f.write(
            '"""Plain replay of one counterexample, no explorer.\n'
            f'rule: {v["rule"]}\n{v["message"][:300]}\n"""\n'
            'import json, os, sys\n'
            f'sys.path.insert(0, {VERIF!r})\n'
            'from vmc import run as _run\n\n\n'
            f'def test_replay_{digest}():\n'
            f'    path = os.path.join(os.path.dirname(__file__), '
            f'{digest + ".json"!r})\n'
            f'    found = _run.replay_file({prop!r}, path)\n'
            '    assert not found, found\n')
    return path


def write_evidence(mod, ctx, acc, n_new, n_known):
    cov = {
        'evaluations': acc.evaluations,
        'distinct_nontrivial': len(acc.keys),
        'rule': mod.RULE,
        'samples': acc.samples[:MAX_SAMPLES],
        'outcomes': dict(sorted(
            acc.outcomes.items(), key=lambda kv: -kv[1])[:40]),
        'distinct_outcomes': len(acc.outcomes),
        'counters': dict(acc.counters),
        'maxima': dict(acc.maxima),
        'exhaustive': bool(getattr(mod, 'EXHAUSTIVE', True)),
        'bounds': getattr(mod, 'BOUNDS', {}).get(ctx.tier, {}),
        'known_findings_seen': n_known,
        'notes': sorted(acc.notes),
    }
    if mod.LEVEL == 'model_checking':
        cov['states'] = len(acc.states)
        cov['transitions'] = len(acc.transitions)
        cov['traces_validated_against_impl'] = acc.validated
    elif acc.states:
        cov['states'] = len(acc.states)
        cov['transitions'] = len(acc.transitions)
    ev = {
        'property_id': mod.ID,
        'tier': ctx.tier,
        'seed': ctx.seed,
        'level': mod.LEVEL,
        'coverage': cov,
        'assumptions': list(mod.ASSUMPTIONS),
        'wall_s': round(time.time() - ctx.t0, 2),
        'violations': n_new,
    }
    os.makedirs(os.path.join(VERIF, 'evidence'), exist_ok=True)
    path = os.path.join(VERIF, 'evidence', mod.ID + '.json')
    with open(path, 'w') as f:
        f.write(jdump(ev, indent=1))
    return path, ev


def validate_evidence(ev):
    try:
        import jsonschema
    except ImportError:  # pragma: no cover
        return None
    for cand in ('/root/.vp/EVIDENCE.schema.json',
                 os.path.join(VERIF, 'schemas', 'EVIDENCE.schema.json')):
        if os.path.exists(cand):
            with open(cand) as f:
                schema = json.load(f)
            jsonschema.validate(json.loads(jdump(ev)), schema)
            return True
    return None


def preload_forkserver():
    """vivarium's ParallelProcess uses the forkserver start method; have
    the fork server import vivarium and the probe module once, so that a
    worker life-cycle costs milliseconds instead of seconds."""
    import sys
    if VERIF not in sys.path:
        sys.path.insert(0, VERIF)
    multiprocessing.set_forkserver_preload(['vivarium', 'vmc.probes'])
